// Package pegen is a bounded-exhaustive generator of PE/COFF images written
// from Microsoft's "PE Format" specification (DOS header, PE signature, COFF
// file header, PE32 / PE32+ optional header with 16 data directories, section
// table, section raw data, optional overlay, optional attribute certificate
// table). It does not import relic. Build is a pure function of a Spec.
package pegen

import (
	"bytes"
	"debug/pe"
	"encoding/binary"
	"fmt"
	"strings"

	"verif/gen/shape"
)

// Spec describes one image completely.
type Spec struct {
	Plus      bool   // PE32+ (AMD64) instead of PE32 (I386)
	FileAlign int    // FileAlignment: 512 or 4096
	Lfanew    int    // e_lfanew: offset of the PE signature (>= 64, multiple of 8)
	Raw       []int  // SizeOfRawData of each section; 0 = uninitialised-data section
	Overlay   int    // bytes appended after the last section's raw data
	CertBlob  int    // >0: a pre-existing attribute certificate table whose bCertificate has this many (arbitrary) bytes
	LastShort int    // >0: the last section's raw data is this many bytes SHORTER than its aligned size and the file ends there (non-conforming but seen in the wild)
	Machine   uint16 // 0 = default for Plus
	NumDirs   int    // NumberOfRvaAndSizes; 0 = 16
}

func (s Spec) Name() string {
	kind := "pe32"
	if s.Plus {
		kind = "pe32+"
	}
	var raws []string
	for _, r := range s.Raw {
		raws = append(raws, fmt.Sprint(r))
	}
	n := fmt.Sprintf("%s/align=%d/lfanew=%d/raw=%s/overlay=%d", kind, s.FileAlign, s.Lfanew, strings.Join(raws, ","), s.Overlay)
	if s.CertBlob > 0 {
		n += fmt.Sprintf("/certblob=%d", s.CertBlob)
	}
	if s.LastShort > 0 {
		n += fmt.Sprintf("/lastshort=%d", s.LastShort)
	}
	if s.Machine != 0 {
		n += fmt.Sprintf("/machine=%#x", s.Machine)
	}
	if s.NumDirs != 0 {
		n += fmt.Sprintf("/dirs=%d", s.NumDirs)
	}
	return n
}

func alignUp(v, a int) int { return (v + a - 1) / a * a }

// fill is the deterministic section content: no long zero runs, not periodic
// in any power of two.
func fill(seed, n int) []byte {
	b := make([]byte, n)
	for i := range b {
		b[i] = byte(1 + (i*7+seed*31+(i>>8))%251)
	}
	return b
}

const sectionAlign = 4096

// Layout reports where Build put things.
type Layout struct {
	ChecksumOff int // file offset of OptionalHeader.CheckSum
	CertDirOff  int // file offset of data directory entry 4
	SizeOfHdrs  int
	SecOff      []int
	SecLen      []int // bytes physically present
	OverlayOff  int
	CertOff     int // 0 if none
	Size        int
}

// Build writes the image.
func Build(s Spec) ([]byte, Layout) {
	var lay Layout
	nsec := len(s.Raw)
	ndirs := s.NumDirs
	if ndirs == 0 {
		ndirs = 16
	}
	optSize := 96 + 8*ndirs
	if s.Plus {
		optSize = 112 + 8*ndirs
	}
	hdrEnd := s.Lfanew + 4 + 20 + optSize + 40*nsec
	sizeOfHeaders := alignUp(hdrEnd, s.FileAlign)
	lay.SizeOfHdrs = sizeOfHeaders

	// plan sections
	type sec struct {
		name           string
		vsize, va      int
		rawSize, rawPt int
		present        int
		chars          uint32
	}
	names := []string{".text", ".data", ".rsrc", ".reloc"}
	secs := make([]sec, nsec)
	filePos := sizeOfHeaders
	va := alignUp(sizeOfHeaders, sectionAlign)
	lastInit := -1
	for i, r := range s.Raw {
		if r > 0 {
			lastInit = i
		}
	}
	for i, r := range s.Raw {
		sc := &secs[i]
		sc.name = names[i%len(names)]
		sc.va = va
		switch {
		case r == 0:
			// uninitialised data: no raw data at all
			sc.name = ".bss"
			sc.vsize = 0x1234
			sc.chars = 0xC0000080
		default:
			sc.rawSize = r
			sc.rawPt = filePos
			sc.present = r
			if i == lastInit && s.LastShort > 0 {
				sc.present = r - s.LastShort
			}
			// VirtualSize: the number of meaningful bytes, a little less than raw
			sc.vsize = r - 3
			if i%2 == 1 {
				sc.vsize = r
			}
			if sc.vsize < 1 {
				sc.vsize = 1
			}
			sc.chars = 0x60000020
			if i > 0 {
				sc.chars = 0xC0000040
			}
			filePos += r
		}
		va = alignUp(va+maxInt(sc.vsize, 1), sectionAlign)
	}
	sizeOfImage := va

	var b bytes.Buffer
	le := binary.LittleEndian
	w16 := func(v uint16) { _ = binary.Write(&b, le, v) }
	w32 := func(v uint32) { _ = binary.Write(&b, le, v) }
	w64 := func(v uint64) { _ = binary.Write(&b, le, v) }

	// DOS header + stub
	dos := make([]byte, s.Lfanew)
	dos[0], dos[1] = 'M', 'Z'
	le.PutUint16(dos[2:], 0x90)  // e_cblp
	le.PutUint16(dos[4:], 3)     // e_cp
	le.PutUint16(dos[8:], 4)     // e_cparhdr
	le.PutUint16(dos[0x18:], 64) // e_lfarlc
	le.PutUint32(dos[0x3c:], uint32(s.Lfanew))
	for i := 64; i < len(dos); i++ {
		dos[i] = byte(0x20 + i%0x5f) // "stub program" bytes
	}
	b.Write(dos)
	b.WriteString("PE\x00\x00")
	// COFF header
	machine := uint16(0x14c)
	chars := uint16(0x0102)
	if s.Plus {
		machine = 0x8664
		chars = 0x0022
	}
	if s.Machine != 0 {
		machine = s.Machine
	}
	w16(machine)
	w16(uint16(nsec))
	w32(0x5f000000) // TimeDateStamp
	w32(0)
	w32(0)
	w16(uint16(optSize))
	w16(chars)
	// optional header: standard fields
	optStart := b.Len()
	if s.Plus {
		w16(0x20b)
	} else {
		w16(0x10b)
	}
	b.WriteByte(14)
	b.WriteByte(0)
	codeSize, dataSize := 0, 0
	for i, sc := range secs {
		if i == 0 {
			codeSize += sc.rawSize
		} else {
			dataSize += sc.rawSize
		}
	}
	w32(uint32(codeSize))
	w32(uint32(dataSize))
	w32(0)
	entry, baseOfCode := uint32(0), uint32(0)
	if nsec > 0 {
		entry = uint32(secs[0].va)
		baseOfCode = uint32(secs[0].va)
	}
	w32(entry)
	w32(baseOfCode)
	if !s.Plus {
		bod := uint32(0)
		if nsec > 1 {
			bod = uint32(secs[1].va)
		}
		w32(bod)
		w32(0x400000) // ImageBase
	} else {
		w64(0x140000000)
	}
	w32(sectionAlign)
	w32(uint32(s.FileAlign))
	w16(6)
	w16(0)
	w16(0)
	w16(0)
	w16(6)
	w16(0)
	w32(0) // Win32VersionValue
	w32(uint32(sizeOfImage))
	w32(uint32(sizeOfHeaders))
	lay.ChecksumOff = b.Len()
	if lay.ChecksumOff != optStart+64 {
		panic("pegen: checksum field is not at optional header offset 64")
	}
	w32(0) // CheckSum, patched below
	w16(3) // Subsystem: console
	w16(0x8160)
	if s.Plus {
		w64(0x100000)
		w64(0x1000)
		w64(0x100000)
		w64(0x1000)
	} else {
		w32(0x100000)
		w32(0x1000)
		w32(0x100000)
		w32(0x1000)
	}
	w32(0) // LoaderFlags
	w32(uint32(ndirs))
	dirStart := b.Len()
	for i := 0; i < ndirs; i++ {
		w32(0)
		w32(0)
	}
	if ndirs > 4 {
		lay.CertDirOff = dirStart + 4*8
	}
	if b.Len()-optStart != optSize {
		panic(fmt.Sprintf("pegen: optional header is %d bytes, planned %d", b.Len()-optStart, optSize))
	}
	// section table
	for _, sc := range secs {
		var nm [8]byte
		copy(nm[:], sc.name)
		b.Write(nm[:])
		w32(uint32(sc.vsize))
		w32(uint32(sc.va))
		w32(uint32(sc.rawSize))
		w32(uint32(sc.rawPt))
		w32(0)
		w32(0)
		w16(0)
		w16(0)
		w32(sc.chars)
	}
	if b.Len() != hdrEnd {
		panic("pegen: header end mismatch")
	}
	b.Write(make([]byte, sizeOfHeaders-hdrEnd))
	for i, sc := range secs {
		lay.SecOff = append(lay.SecOff, sc.rawPt)
		lay.SecLen = append(lay.SecLen, sc.present)
		if sc.rawSize == 0 {
			continue
		}
		if b.Len() != sc.rawPt {
			panic("pegen: section offset mismatch")
		}
		b.Write(fill(i+1, sc.present))
	}
	lay.OverlayOff = b.Len()
	for i := 0; i < s.Overlay; i++ {
		b.WriteByte(byte(0xA0 + i%16))
	}
	if s.CertBlob > 0 {
		// attribute certificate table: starts on an 8-byte boundary (the
		// padding belongs to the file, not to the table)
		for b.Len()%8 != 0 {
			b.WriteByte(0)
		}
		lay.CertOff = b.Len()
		dwLength := 8 + s.CertBlob
		w32(uint32(dwLength))
		w16(0x0200)
		w16(0x0002)
		b.Write(fill(99, s.CertBlob))
		for (b.Len()-lay.CertOff)%8 != 0 {
			b.WriteByte(0)
		}
		out := b.Bytes()
		le.PutUint32(out[lay.CertDirOff:], uint32(lay.CertOff))
		le.PutUint32(out[lay.CertDirOff+4:], uint32(len(out)-lay.CertOff))
	}
	out := b.Bytes()
	lay.Size = len(out)
	le.PutUint32(out[lay.ChecksumOff:], Checksum(out, lay.ChecksumOff))
	return out, lay
}

func maxInt(a, b int) int {
	if a > b {
		return a
	}
	return b
}

// Checksum is the image checksum as imagehlp's CheckSumMappedFile computes it:
// the file is summed as little-endian 16-bit words with end-around carry, the
// four bytes of the CheckSum field counting as zero and an odd trailing byte as
// a word with a zero high byte; the file length is added to the folded sum.
func Checksum(b []byte, checksumOff int) uint32 {
	var sum uint32
	n := len(b)
	for i := 0; i < n; i += 2 {
		var w uint32
		if i >= checksumOff && i < checksumOff+4 {
			w = 0
		} else if i+1 < n {
			w = uint32(b[i]) | uint32(b[i+1])<<8
		} else {
			w = uint32(b[i])
		}
		sum += w
		sum = (sum & 0xffff) + (sum >> 16)
	}
	sum = (sum & 0xffff) + (sum >> 16)
	return sum + uint32(n)
}

// ChecksumOffset locates the CheckSum field of an image (e_lfanew + 4 + 20 + 64).
func ChecksumOffset(b []byte) (int, error) {
	if len(b) < 64 || b[0] != 'M' || b[1] != 'Z' {
		return 0, fmt.Errorf("no DOS header")
	}
	l := int(binary.LittleEndian.Uint32(b[0x3c:]))
	if l+4+20+68 > len(b) || string(b[l:l+4]) != "PE\x00\x00" {
		return 0, fmt.Errorf("no PE signature at e_lfanew")
	}
	return l + 4 + 20 + 64, nil
}

// Check parses the image with debug/pe and cross-checks the layout rules of
// the specification that Build is meant to satisfy.
func Check(strict bool) func(b []byte) error {
	return func(b []byte) error {
		f, err := pe.NewFile(bytes.NewReader(b))
		if err != nil {
			return fmt.Errorf("debug/pe: %w", err)
		}
		var fileAlign, sizeOfHeaders uint32
		var certDir pe.DataDirectory
		switch oh := f.OptionalHeader.(type) {
		case *pe.OptionalHeader32:
			fileAlign, sizeOfHeaders = oh.FileAlignment, oh.SizeOfHeaders
			certDir = oh.DataDirectory[4]
		case *pe.OptionalHeader64:
			fileAlign, sizeOfHeaders = oh.FileAlignment, oh.SizeOfHeaders
			certDir = oh.DataDirectory[4]
		default:
			return fmt.Errorf("no optional header")
		}
		if sizeOfHeaders%fileAlign != 0 {
			return fmt.Errorf("SizeOfHeaders %d not a multiple of FileAlignment", sizeOfHeaders)
		}
		end := sizeOfHeaders
		for i, s := range f.Sections {
			if s.Size == 0 {
				continue
			}
			if s.Offset%fileAlign != 0 {
				return fmt.Errorf("section %d: PointerToRawData %d not aligned", i, s.Offset)
			}
			if strict && s.Size%fileAlign != 0 {
				return fmt.Errorf("section %d: SizeOfRawData %d not aligned", i, s.Size)
			}
			if s.Offset < end {
				return fmt.Errorf("section %d overlaps previous data", i)
			}
			if strict && s.Offset != end {
				return fmt.Errorf("section %d not contiguous", i)
			}
			if strict && int(s.Offset+s.Size) > len(b) {
				return fmt.Errorf("section %d extends past end of file", i)
			}
			if _, err := s.Data(); err != nil && strict {
				return fmt.Errorf("section %d data: %w", i, err)
			}
			end = s.Offset + s.Size
		}
		if certDir.Size != 0 {
			if certDir.VirtualAddress%8 != 0 || int(certDir.VirtualAddress+certDir.Size) != len(b) {
				return fmt.Errorf("certificate table [%d,+%d) is not the 8-aligned tail of the %d-byte file", certDir.VirtualAddress, certDir.Size, len(b))
			}
		}
		off, err := ChecksumOffset(b)
		if err != nil {
			return err
		}
		if got, want := binary.LittleEndian.Uint32(b[off:]), Checksum(b, off); got != want {
			return fmt.Errorf("CheckSum field %#x, computed %#x", got, want)
		}
		return nil
	}
}

func mk(s Spec, class string, strict bool) shape.Shape {
	return shape.Shape{
		Name: s.Name(), Class: class, File: "a.exe", Strict: strict, Source: "generated",
		Build: func() ([]byte, error) { b, _ := Build(s); return b, nil },
		Check: Check(strict),
	}
}

// Canonical is the simplest typical image: PE32+, FileAlignment 512, the usual
// 64-byte stub, a code and a data section, nothing after them.
func Canonical() Spec {
	return Spec{Plus: true, FileAlign: 512, Lfanew: 128, Raw: []int{1024, 512}}
}

// Shapes returns the family, canonical shape first, simplest first.
//
// quick: the canonical image; PE32; 1 and 3 sections (one uninitialised);
// FileAlignment 4096; no DOS stub; overlay of 1/7/8/9 bytes; sections
// straddling a 4096-byte page, 64 KiB and 1 MiB; plus lenient shapes
// (arbitrary pre-existing certificate table, truncated last section, 32 KiB
// DOS stub, 5 data directories); ARM64 machine type.
//
// thorough: {PE32,PE32+} x FileAlignment{512,4096} x e_lfanew{64,128} x
// raw-size tuples (1..3 sections, sizes in FileAlignment multiples around the
// 4096-byte page, one uninitialised section) x overlay{0,1,7,8,9}, plus the
// size ladder and the lenient shapes for both header kinds.
func Shapes(thorough bool) []shape.Shape {
	var out []shape.Shape
	c := Canonical()
	out = append(out, mk(c, "canonical", true))
	with := func(f func(*Spec)) Spec { s := Canonical(); s.Raw = append([]int{}, s.Raw...); f(&s); return s }
	out = append(out,
		mk(with(func(s *Spec) { s.Plus = false }), "pe32", true),
		mk(with(func(s *Spec) { s.Raw = []int{512} }), "sections-1", true),
		mk(with(func(s *Spec) { s.Raw = []int{512, 0, 1024} }), "sections-3-one-uninitialised", true),
		mk(with(func(s *Spec) { s.FileAlign = 4096; s.Raw = []int{4096, 8192} }), "filealign-4096", true),
		mk(with(func(s *Spec) { s.Lfanew = 64 }), "no-dos-stub", true),
		mk(with(func(s *Spec) { s.Overlay = 1 }), "overlay-1-bytes", true),
		mk(with(func(s *Spec) { s.Overlay = 7 }), "overlay-7-bytes", true),
		mk(with(func(s *Spec) { s.Overlay = 8 }), "overlay-8-bytes", true),
		mk(with(func(s *Spec) { s.Overlay = 9 }), "overlay-9-bytes", true),
		mk(with(func(s *Spec) { s.Raw = []int{4096 + 512, 512} }), "section-page-plus-512", true),
		mk(with(func(s *Spec) { s.Raw = []int{65536, 65536 + 512} }), "section-64KiB", true),
		mk(with(func(s *Spec) { s.Raw = []int{1 << 20, 512} }), "section-1MiB", true),
		mk(with(func(s *Spec) { s.Raw = []int{1<<20 + 512, 512}; s.Overlay = 7; s.Plus = false }), "section-1MiB+512-overlay-7", true),
		mk(with(func(s *Spec) { s.CertBlob = 24 }), "existing-cert-table-arbitrary-24", false),
		mk(with(func(s *Spec) { s.CertBlob = 21; s.Overlay = 3 }), "existing-cert-table-arbitrary-21-after-overlay-3", false),
		mk(with(func(s *Spec) { s.LastShort = 1 }), "last-section-truncated-1", false),
		mk(with(func(s *Spec) { s.Lfanew = 8192 }), "dos-stub-8KiB", false),
		mk(with(func(s *Spec) { s.Lfanew = 32768 - 88 }), "dos-stub-32KiB-checksum-field-at-32768", false),
		mk(with(func(s *Spec) { s.Lfanew = 32768 - 88 - 2 }), "dos-stub-32KiB-checksum-field-at-32766", false),
		mk(with(func(s *Spec) { s.Machine = 0xaa64 }), "machine-arm64", true),
		mk(with(func(s *Spec) { s.NumDirs = 5 }), "data-directories-5", false),
	)
	if !thorough {
		return out
	}
	seen := map[string]bool{}
	for _, s := range out {
		seen[s.Name] = true
	}
	add := func(s Spec, class string, strict bool) {
		if seen[s.Name()] {
			return
		}
		seen[s.Name()] = true
		out = append(out, mk(s, class, strict))
	}
	for _, plus := range []bool{true, false} {
		for _, fa := range []int{512, 4096} {
			var tuples [][]int
			// multiples of FileAlignment positioned around the 4096-byte page
			var units []int
			if fa == 512 {
				units = []int{512, 3584, 4096, 4608}
			} else {
				units = []int{4096, 8192}
			}
			for _, a := range units {
				tuples = append(tuples, []int{a})
				for _, b2 := range units {
					tuples = append(tuples, []int{a, b2})
				}
			}
			tuples = append(tuples, []int{units[0], 0, units[1]}, []int{units[1], units[0], units[0]}, []int{units[0], units[0], 0})
			for _, lf := range []int{64, 128} {
				for _, raw := range tuples {
					for _, ov := range []int{0, 1, 7, 8, 9} {
						class := fmt.Sprintf("grid-sections-%d-overlay-%d-bytes", len(raw), ov)
						add(Spec{Plus: plus, FileAlign: fa, Lfanew: lf, Raw: raw, Overlay: ov}, class, true)
					}
				}
			}
		}
		for _, sz := range []int{65536 - 512, 65536, 65536 + 512, 1<<20 - 512, 1 << 20, 1<<20 + 512} {
			for _, ov := range []int{0, 7} {
				add(Spec{Plus: plus, FileAlign: 512, Lfanew: 128, Raw: []int{sz}, Overlay: ov}, fmt.Sprintf("size-ladder-section-%d", sz), true)
			}
		}
		for _, cb := range []int{1, 8, 16, 1000} {
			for _, ov := range []int{0, 5} {
				add(Spec{Plus: plus, FileAlign: 512, Lfanew: 128, Raw: []int{1024, 512}, Overlay: ov, CertBlob: cb}, fmt.Sprintf("existing-cert-table-arbitrary-%d", cb), false)
			}
		}
		for _, ls := range []int{1, 255, 511} {
			add(Spec{Plus: plus, FileAlign: 512, Lfanew: 128, Raw: []int{1024, 512}, LastShort: ls}, fmt.Sprintf("last-section-truncated-%d", ls), false)
		}
	}
	return out
}

// Package shape is the common description of one generated input file used by
// the C01 shape generators (gen/pegen, gen/cabgen, gen/psgen, gen/zpkggen,
// gen/debgen, gen/rpmgen, gen/xargen, gen/dmggen, gen/machogen, ...). It does
// not import relic.
package shape

// Shape is one well-formed input of a package type.
type Shape struct {
	// Name is a stable, human-readable identifier that names every generator
	// parameter, e.g. "pe32+/align=512/secs=2/raw=512,1024/overlay=7".
	Name string
	// Class is a short name of the distinguishing structural feature, used in
	// violation keys ("overlay-7-bytes", "member-empty", "canonical", ...).
	// Several shapes may share a class.
	Class string
	// File is the base file name the input must be stored under (relic picks
	// some signers by extension), e.g. "a.exe", "s.ps1", "d.dmg".
	File string
	// Strict is true when the bytes conform to the format specification in
	// every respect a signer may rely on: signing a Strict shape with a
	// supported key/digest MUST succeed. Non-strict ("lenient") shapes are
	// legal but unusual; for those "explicit refusal XOR verifiable output" is
	// enough.
	Strict bool
	// Source says where the bytes come from: "generated" (written from the
	// specification), "fixture" (a file under /repo/functest/packages, named in
	// Name) or "fixture-edit" (a fixture changed by a structure-preserving edit
	// made with an independent reader).
	Source string
	// Build returns the file bytes. It must be deterministic.
	Build func() ([]byte, error)
	// Check re-reads bytes with a reader that is independent of relic (Go
	// stdlib or a parser written in the generator from the specification) and
	// returns an error if they are not well-formed. The harness runs Check on
	// every shape before using it; a shape failing Check is a generator bug.
	Check func(b []byte) error
}

// Package psgen generates PowerShell-family text files (.ps1 .psd1 .psm1 /
// .ps1xml .psc1 .cdxml / .mof) in the encodings Windows tools write (ASCII,
// UTF-8 with BOM, UTF-16-LE with BOM), with CRLF or LF line ends, with and
// without a final line end, over a ladder of sizes. It does not import relic.
package psgen

import (
	"bytes"
	"encoding/binary"
	"fmt"
	"strings"
	"unicode/utf16"
	"unicode/utf8"

	"verif/gen/shape"
)

const (
	ASCII   = "ascii"
	UTF8BOM = "utf8-bom"
	UTF16LE = "utf16le-bom"
	UTF16BE = "utf16be-bom"
	UTF16No = "utf16le-nobom"
)

// Spec describes one script.
type Spec struct {
	Ext      string // ".ps1", ".ps1xml", ".mof", ...
	Enc      string
	EOL      string // "\r\n" or "\n"
	FinalEOL bool
	Lines    int    // number of text lines
	LineLen  int    // characters per line (before the line end); 0 = natural
	Chars    string // "ascii" | "bmp" (non-ASCII BMP) | "astral" (surrogate pairs) | "lf-byte" (characters whose UTF-16 code unit contains the byte 0x0A: U+010A, U+0A0A, U+0A05)
}

func (s Spec) Name() string {
	eol := "crlf"
	if s.EOL == "\n" {
		eol = "lf"
	}
	fin := "final-eol"
	if !s.FinalEOL {
		fin = "no-final-eol"
	}
	return fmt.Sprintf("ps/%s/%s/%s/%s/lines=%d/linelen=%d/chars=%s", s.Ext, s.Enc, eol, fin, s.Lines, s.LineLen, s.Chars)
}

func comment(ext string) (string, string) {
	switch ext {
	case ".ps1xml", ".psc1", ".cdxml":
		return "<!-- ", " -->"
	case ".mof":
		return "/* ", " */"
	}
	return "# ", ""
}

// Text returns the script as a Go string (before encoding).
func Text(s Spec) string {
	var b strings.Builder
	a, z := comment(s.Ext)
	special := ""
	switch s.Chars {
	case "bmp":
		special = "é中Ω"
	case "astral":
		special = "😀𝔘"
	case "lf-byte":
		special = "Ċਊਅ"
	}
	if s.Enc == ASCII {
		special = ""
	}
	for i := 0; i < s.Lines; i++ {
		var line string
		switch {
		case i == 0 && (s.Ext == ".ps1xml" || s.Ext == ".psc1" || s.Ext == ".cdxml"):
			line = `<Configuration note="` + special + `">`
		case i == s.Lines-1 && s.Lines > 1 && (s.Ext == ".ps1xml" || s.Ext == ".psc1" || s.Ext == ".cdxml"):
			line = "</Configuration>"
		case s.Ext == ".mof":
			line = fmt.Sprintf("%sline %d %s%s", a, i, special, z)
		case i%2 == 0:
			line = fmt.Sprintf("Write-Host 'line %d %s'", i, special)
		default:
			line = fmt.Sprintf("%scomment %d %s%s", a, i, special, z)
		}
		if s.LineLen > 0 {
			r := []rune(line)
			for len(r) < s.LineLen {
				r = append(r, rune('a'+len(r)%26))
			}
			// keep the tail so that closing comment markers survive
			if len(r) > s.LineLen && s.Ext == ".ps1" {
				r = r[:s.LineLen]
			}
			line = string(r)
		}
		b.WriteString(line)
		if i < s.Lines-1 || s.FinalEOL {
			b.WriteString(s.EOL)
		}
	}
	return b.String()
}

// Build encodes the text.
func Build(s Spec) []byte {
	t := Text(s)
	switch s.Enc {
	case ASCII:
		return []byte(t)
	case UTF8BOM:
		return append([]byte{0xEF, 0xBB, 0xBF}, t...)
	case UTF16LE, UTF16No, UTF16BE:
		u := utf16.Encode([]rune(t))
		var b bytes.Buffer
		var order binary.ByteOrder = binary.LittleEndian
		if s.Enc == UTF16BE {
			order = binary.BigEndian
		}
		if s.Enc != UTF16No {
			_ = binary.Write(&b, order, uint16(0xFEFF))
		}
		_ = binary.Write(&b, order, u)
		return b.Bytes()
	}
	panic("psgen: unknown encoding " + s.Enc)
}

// Decode is the independent reader: it recovers the text from the bytes.
func Decode(enc string, b []byte) (string, error) {
	switch enc {
	case ASCII:
		for _, c := range b {
			if c >= 0x80 {
				return "", fmt.Errorf("non-ASCII byte")
			}
		}
		return string(b), nil
	case UTF8BOM:
		if !bytes.HasPrefix(b, []byte{0xEF, 0xBB, 0xBF}) {
			return "", fmt.Errorf("no UTF-8 BOM")
		}
		if !utf8.Valid(b[3:]) {
			return "", fmt.Errorf("invalid UTF-8")
		}
		return string(b[3:]), nil
	}
	if len(b)%2 != 0 {
		return "", fmt.Errorf("odd length UTF-16")
	}
	var order binary.ByteOrder = binary.LittleEndian
	if enc == UTF16BE {
		order = binary.BigEndian
	}
	u := make([]uint16, len(b)/2)
	_ = binary.Read(bytes.NewReader(b), order, u)
	if enc != UTF16No {
		if len(u) == 0 || u[0] != 0xFEFF {
			return "", fmt.Errorf("no UTF-16 BOM")
		}
		u = u[1:]
	}
	for i := 0; i < len(u); i++ {
		if u[i] >= 0xD800 && u[i] < 0xDC00 {
			if i+1 >= len(u) || u[i+1] < 0xDC00 || u[i+1] >= 0xE000 {
				return "", fmt.Errorf("lone high surrogate")
			}
			i++
		} else if u[i] >= 0xDC00 && u[i] < 0xE000 {
			return "", fmt.Errorf("lone low surrogate")
		}
	}
	return string(utf16.Decode(u)), nil
}

func mk(s Spec, class string, strict bool) shape.Shape {
	return shape.Shape{Name: s.Name(), Class: class, File: "s" + s.Ext, Strict: strict, Source: "generated",
		Build: func() ([]byte, error) { return Build(s), nil },
		Check: func(b []byte) error {
			t, err := Decode(s.Enc, b)
			if err != nil {
				return err
			}
			if t != Text(s) {
				return fmt.Errorf("decoded text differs from the generated text")
			}
			return nil
		}}
}

func Canonical() Spec {
	return Spec{Ext: ".ps1", Enc: ASCII, EOL: "\r\n", FinalEOL: true, Lines: 3, Chars: "ascii"}
}

// Shapes: canonical first.
//
// quick: the three signature styles (.ps1 / .ps1xml / .mof) x the three
// encodings with a 3-line text; LF line ends; no final line end; empty file;
// one line without line end; a 5000-character line (longer than a 4096-byte
// read buffer); 64 KiB and 1 MiB texts; non-ASCII BMP, astral and
// "0x0A-byte" characters in UTF-8 and UTF-16; lenient: UTF-16 big endian,
// UTF-16 without BOM.
//
// thorough: extension{.ps1,.psd1,.psm1,.ps1xml,.psc1,.cdxml,.mof} x encoding x
// EOL x final-EOL x lines{0,1,2,40} x chars{ascii,bmp,astral,lf-byte}, plus
// line lengths {4093..4099} (read-buffer boundary incl. CRLF) in each encoding.
func Shapes(thorough bool) []shape.Shape {
	var out []shape.Shape
	out = append(out, mk(Canonical(), "canonical", true))
	with := func(f func(*Spec)) Spec { s := Canonical(); f(&s); return s }
	for _, ext := range []string{".ps1", ".ps1xml", ".mof"} {
		for _, enc := range []string{ASCII, UTF8BOM, UTF16LE} {
			if ext == ".ps1" && enc == ASCII {
				continue
			}
			out = append(out, mk(with(func(s *Spec) { s.Ext = ext; s.Enc = enc }), "style-"+ext[1:]+"-"+enc, true))
		}
	}
	out = append(out,
		mk(with(func(s *Spec) { s.EOL = "\n" }), "lf-line-ends", true),
		mk(with(func(s *Spec) { s.FinalEOL = false }), "no-final-eol", true),
		mk(with(func(s *Spec) { s.Lines = 0 }), "empty-file", true),
		mk(with(func(s *Spec) { s.Lines = 0; s.Enc = UTF16LE }), "empty-file-utf16-bom-only", true),
		mk(with(func(s *Spec) { s.Lines = 1; s.FinalEOL = false }), "one-line-no-eol", true),
		mk(with(func(s *Spec) { s.Lines = 1; s.FinalEOL = false; s.Enc = UTF16LE }), "one-line-no-eol-utf16", true),
		mk(with(func(s *Spec) { s.Lines = 2; s.LineLen = 5000 }), "line-5000-chars", true),
		mk(with(func(s *Spec) { s.Lines = 2; s.LineLen = 5000; s.Enc = UTF16LE }), "line-5000-chars-utf16", true),
		mk(with(func(s *Spec) { s.Lines = 1100; s.LineLen = 58 }), "size-64KiB", true),
		mk(with(func(s *Spec) { s.Lines = 17500; s.LineLen = 58; s.Enc = UTF16LE }), "size-2MiB-utf16", true),
		mk(with(func(s *Spec) { s.Enc = UTF8BOM; s.Chars = "bmp" }), "chars-bmp-utf8", true),
		mk(with(func(s *Spec) { s.Enc = UTF16LE; s.Chars = "bmp" }), "chars-bmp-utf16", true),
		mk(with(func(s *Spec) { s.Enc = UTF8BOM; s.Chars = "astral" }), "chars-astral-utf8", true),
		mk(with(func(s *Spec) { s.Enc = UTF16LE; s.Chars = "astral" }), "chars-astral-utf16", true),
		mk(with(func(s *Spec) { s.Enc = UTF8BOM; s.Chars = "lf-byte" }), "chars-with-0x0A-code-unit-byte-utf8", true),
		mk(with(func(s *Spec) { s.Enc = UTF16LE; s.Chars = "lf-byte" }), "chars-with-0x0A-code-unit-byte-utf16", true),
		mk(with(func(s *Spec) { s.Enc = UTF16BE }), "utf16-big-endian", false),
		mk(with(func(s *Spec) { s.Enc = UTF16No }), "utf16-without-bom", false),
	)
	if !thorough {
		return out
	}
	seen := map[string]bool{}
	for _, s := range out {
		seen[s.Name] = true
	}
	add := func(s Spec, class string) {
		if !seen[s.Name()] {
			seen[s.Name()] = true
			out = append(out, mk(s, class, true))
		}
	}
	for _, ext := range []string{".ps1", ".psd1", ".psm1", ".ps1xml", ".psc1", ".cdxml", ".mof"} {
		for _, enc := range []string{ASCII, UTF8BOM, UTF16LE} {
			for _, eol := range []string{"\r\n", "\n"} {
				for _, fin := range []bool{true, false} {
					for _, lines := range []int{0, 1, 2, 40} {
						for _, chars := range []string{"ascii", "bmp", "astral", "lf-byte"} {
							if enc == ASCII && chars != "ascii" {
								continue
							}
							if lines == 0 && (eol != "\r\n" || !fin || chars != "ascii") {
								continue
							}
							class := "grid-" + enc + "-" + chars
							if chars == "lf-byte" {
								class = "chars-with-0x0A-code-unit-byte-" + map[string]string{UTF8BOM: "utf8", UTF16LE: "utf16"}[enc]
							}
							add(Spec{Ext: ext, Enc: enc, EOL: eol, FinalEOL: fin, Lines: lines, Chars: chars}, class)
						}
					}
				}
			}
		}
	}
	for _, enc := range []string{ASCII, UTF8BOM, UTF16LE} {
		for ll := 4093; ll <= 4099; ll++ {
			add(Spec{Ext: ".ps1", Enc: enc, EOL: "\r\n", FinalEOL: true, Lines: 3, LineLen: ll, Chars: "ascii"}, fmt.Sprintf("line-length-%d-%s", ll, enc))
			add(Spec{Ext: ".ps1", Enc: enc, EOL: "\r\n", FinalEOL: true, Lines: 3, LineLen: ll/2 + 1, Chars: "ascii"}, fmt.Sprintf("line-length-%d-%s", ll/2+1, enc))
		}
	}
	return out
}

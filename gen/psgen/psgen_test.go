package psgen

import "testing"

func TestShapes(t *testing.T) {
	for _, th := range []bool{false, true} {
		seen := map[string]bool{}
		ss := Shapes(th)
		for _, s := range ss {
			if seen[s.Name] {
				t.Errorf("duplicate %s", s.Name)
			}
			seen[s.Name] = true
			b, err := s.Build()
			if err != nil {
				t.Fatal(err)
			}
			if err := s.Check(b); err != nil {
				t.Errorf("%s: %v", s.Name, err)
			}
		}
		t.Logf("thorough=%v: %d shapes", th, len(ss))
	}
}

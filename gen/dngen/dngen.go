// Package dngen is a finite family of X.501 distinguished names as tools OTHER
// than Go's crypto/x509 write them, encoded with the from-scratch DER writer
// gen/dergen (no encoding/asn1, no crypto/x509/pkix: the octets are exactly what
// the table says). RFC 5280 4.1.2.4 / 4.1.2.6 make a Name a SEQUENCE OF
// RelativeDistinguishedName, each a SET OF AttributeTypeAndValue whose value is a
// DirectoryString CHOICE (TeletexString, PrintableString, UniversalString,
// UTF8String, BMPString) or, for some attributes, IA5String; the order of the
// RDNs, the string type and the multiplicity of an attribute are the issuer's
// choice, and a name is compared octet-wise wherever it is used as an identifier
// (issuerAndSerialNumber in CMS, RFC 5652 10.2.4). The family takes every axis on
// which a DN can differ from the one canonical form a particular library would
// write for the same attribute values:
//
//	string type   PrintableString / UTF8String / TeletexString / BMPString / IA5String
//	order         country first (X.500 tree order) / common name first (LDAP string order) / O before C
//	multiplicity  one attribute per RDN / a multi-valued RDN / an attribute type repeated in several RDNs
//	attribute set the X.520 naming attributes / DC, UID, emailAddress / EV jurisdiction fields / a private OID
//	value         ordinary / empty / non-ASCII / at the upper bound ub-common-name = 64
//	length        encodings of fewer than 128 octets, of 128..255 and of more than 255 octets
//	              (one, two and three length octets)
//
// one representative name per value of each axis with the others at their
// everyday value (plus the names real CAs combine them into).
package dngen

import (
	"unicode/utf16"

	"verif/gen/dergen"
)

// String types (universal tag numbers, X.680).
const (
	UTF8      = 0x0c
	Printable = 0x13
	Teletex   = 0x14
	IA5       = 0x16
	BMP       = 0x1e
)

// ATV is one AttributeTypeAndValue.
type ATV struct {
	OID   []int
	Tag   byte
	Value string
}

// RDN is one RelativeDistinguishedName: its attributes in the order given here;
// Encode sorts them the way DER requires of a SET OF.
type RDN []ATV

// Shape is one way of writing names. Issuer is the name of the certificate
// authority, Subject that of the end entity it issues to, both written the same
// way.
type Shape struct {
	Name    string // file name stem and configuration key suffix
	Desc    string // reporting name
	Issuer  []RDN
	Subject []RDN
}

var (
	oidC      = []int{2, 5, 4, 6}
	oidO      = []int{2, 5, 4, 10}
	oidOU     = []int{2, 5, 4, 11}
	oidCN     = []int{2, 5, 4, 3}
	oidL      = []int{2, 5, 4, 7}
	oidST     = []int{2, 5, 4, 8}
	oidStreet = []int{2, 5, 4, 9}
	oidPostal = []int{2, 5, 4, 17}
	oidSerial = []int{2, 5, 4, 5}
	oidBizCat = []int{2, 5, 4, 15}
	oidEmail  = []int{1, 2, 840, 113549, 1, 9, 1}
	oidDC     = []int{0, 9, 2342, 19200300, 100, 1, 25}
	oidUID    = []int{0, 9, 2342, 19200300, 100, 1, 1}
	oidJurC   = []int{1, 3, 6, 1, 4, 1, 311, 60, 2, 1, 3}
	oidJurST  = []int{1, 3, 6, 1, 4, 1, 311, 60, 2, 1, 2}
	oidPriv   = []int{1, 3, 6, 1, 4, 1, 55555, 7, 1} // a private-enterprise arc no library has a name for
)

func one(oid []int, tag byte, v string) RDN { return RDN{{oid, tag, v}} }

// pair builds issuer and subject from one template: the common name (and only
// it) differs.
func pair(f func(cn string) []RDN) (issuer, subject []RDN) {
	return f("verif names CA"), f("leaf rsaA names")
}

func mk(name, desc string, f func(cn string) []RDN) Shape {
	i, s := pair(f)
	return Shape{Name: name, Desc: desc, Issuer: i, Subject: s}
}

const sixtyFour = "verif fixtures organisational unit with a name of 64 octets ...."

// Shapes is the family, in a fixed order.
func Shapes() []Shape {
	return []Shape{
		mk("utf8", "UTF8String-values-country-PrintableString-as-openssl-writes-by-default", func(cn string) []RDN {
			return []RDN{one(oidC, Printable, "US"), one(oidO, UTF8, "verif fixtures"), one(oidCN, UTF8, cn)}
		}),
		mk("utf8all", "UTF8String-for-every-value-including-country", func(cn string) []RDN {
			return []RDN{one(oidC, UTF8, "US"), one(oidO, UTF8, "verif fixtures"), one(oidCN, UTF8, cn)}
		}),
		mk("cnfirst", "common-name-first-order-CN-O-C", func(cn string) []RDN {
			return []RDN{one(oidCN, Printable, cn), one(oidO, Printable, "verif fixtures"), one(oidC, Printable, "US")}
		}),
		mk("obeforec", "organisation-before-country-order-O-C-CN", func(cn string) []RDN {
			return []RDN{one(oidO, Printable, "verif fixtures"), one(oidC, Printable, "US"), one(oidCN, Printable, cn)}
		}),
		mk("multirdn", "multi-valued-RDN-OU-plus-CN", func(cn string) []RDN {
			return []RDN{one(oidC, Printable, "US"), one(oidO, Printable, "verif fixtures"),
				{{oidOU, Printable, "names"}, {oidCN, Printable, cn}}}
		}),
		mk("repeated", "attribute-repeated-in-several-RDNs-two-OU-two-O", func(cn string) []RDN {
			return []RDN{one(oidC, Printable, "US"), one(oidO, Printable, "verif fixtures"), one(oidO, Printable, "verif"),
				one(oidOU, Printable, "names"), one(oidOU, Printable, "fixtures"), one(oidCN, Printable, cn)}
		}),
		mk("dc", "domain-components-IA5String-then-CN", func(cn string) []RDN {
			return []RDN{one(oidDC, IA5, "test"), one(oidDC, IA5, "verif"), one(oidOU, Printable, "names"), one(oidCN, Printable, cn)}
		}),
		mk("email", "emailAddress-IA5String-and-UID-after-CN", func(cn string) []RDN {
			return []RDN{one(oidC, Printable, "US"), one(oidO, Printable, "verif fixtures"), one(oidCN, Printable, cn),
				one(oidUID, UTF8, "names01"), one(oidEmail, IA5, "names@verif.test")}
		}),
		mk("privoid", "attribute-with-a-private-enterprise-OID", func(cn string) []RDN {
			return []RDN{one(oidC, Printable, "US"), one(oidO, Printable, "verif fixtures"), one(oidPriv, UTF8, "unit 7"), one(oidCN, Printable, cn)}
		}),
		mk("teletex", "TeletexString-values", func(cn string) []RDN {
			return []RDN{one(oidC, Printable, "US"), one(oidO, Teletex, "verif fixtures"), one(oidCN, Teletex, cn)}
		}),
		mk("bmp", "BMPString-values", func(cn string) []RDN {
			return []RDN{one(oidC, Printable, "US"), one(oidO, BMP, "verif fixtures"), one(oidCN, BMP, cn)}
		}),
		mk("empty", "an-attribute-with-an-empty-value", func(cn string) []RDN {
			return []RDN{one(oidC, Printable, "US"), one(oidO, Printable, "verif fixtures"), one(oidOU, UTF8, ""), one(oidCN, Printable, cn)}
		}),
		mk("nonascii", "non-ASCII-UTF8String-values", func(cn string) []RDN {
			return []RDN{one(oidC, Printable, "DE"), one(oidO, UTF8, "verif Prüfstücke GmbH"), one(oidL, UTF8, "Zürich"), one(oidCN, UTF8, cn+" – 名前")}
		}),
		mk("ev", "extended-validation-style-jurisdiction-businessCategory-serialNumber-C-ST-L-street-postalCode-O-CN-more-than-255-octets", func(cn string) []RDN {
			return []RDN{one(oidJurC, Printable, "US"), one(oidJurST, UTF8, "Delaware"), one(oidBizCat, UTF8, "Private Organization"),
				one(oidSerial, Printable, "5551234"), one(oidC, Printable, "US"), one(oidST, UTF8, "North Carolina"), one(oidL, UTF8, "Cary"),
				one(oidStreet, UTF8, "100 Fixture Campus Drive"), one(oidPostal, UTF8, "27513"), one(oidO, UTF8, "verif fixtures"),
				one(oidOU, UTF8, sixtyFour), one(oidCN, UTF8, cn)}
		}),
		mk("mid", "a-name-of-128-to-255-octets-with-a-64-octet-OU", func(cn string) []RDN {
			return []RDN{one(oidC, Printable, "US"), one(oidO, Printable, "verif fixtures"), one(oidOU, Printable, sixtyFour), one(oidCN, Printable, cn)}
		}),
	}
}

// EncodeString writes one attribute value with the given string type.
func EncodeString(tag byte, v string) []byte {
	if tag == BMP {
		var b []byte
		for _, u := range utf16.Encode([]rune(v)) {
			b = append(b, byte(u>>8), byte(u))
		}
		return dergen.TLV(tag, b)
	}
	return dergen.TLV(tag, []byte(v))
}

// Encode writes a Name (RDNSequence).
func Encode(name []RDN) []byte {
	var rdns [][]byte
	for _, r := range name {
		var atvs [][]byte
		for _, a := range r {
			atvs = append(atvs, dergen.Seq(dergen.OID(a.OID...), EncodeString(a.Tag, a.Value)))
		}
		rdns = append(rdns, dergen.SetAsGiven(dergen.SortDER(atvs)...))
	}
	return dergen.Seq(rdns...)
}

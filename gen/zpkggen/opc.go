package zpkggen

import (
	"bytes"
	"compress/flate"
	"crypto/sha256"
	"encoding/base64"
	"encoding/xml"
	"fmt"
	"path"
	"sort"
	"strings"

	"verif/gen/pegen"
	"verif/gen/shape"
)

// ---------- APPX ----------

// AppxSpec describes one unsigned .appx as MakeAppx lays it out: payload
// files, AppxManifest.xml, AppxBlockMap.xml, [Content_Types].xml.
type AppxSpec struct {
	Sizes   []int  // payload file sizes
	Mode    string // "stored" | "deflate" (per-64KiB-block sync-flushed deflate, as the block map requires) | "deflate-dd"
	Names   string // "ext" (a.png, b.txt, ...), "noext" (first payload file is called LICENSE, with an Override content type), "subdir" (Assets/a.png), "upper" (A.PNG)
	NoPE    bool   // content-only package: no executable (otherwise a generated PE image app.exe is the first member)
	NoBlock bool   // no AppxBlockMap.xml / [Content_Types].xml yet (manifest is the last member)
	Noise   bool   // payload is incompressible (deflate emits stored blocks and ends the stream with a separate empty final block)
}

func (s AppxSpec) Name() string {
	var ss []string
	for _, x := range s.Sizes {
		ss = append(ss, fmt.Sprint(x))
	}
	n := fmt.Sprintf("appx/%s/names=%s/sizes=%s", s.Mode, s.Names, strings.Join(ss, ","))
	if s.NoPE {
		n += "/content-only"
	}
	if s.NoBlock {
		n += "/no-blockmap"
	}
	if s.Noise {
		n += "/incompressible"
	}
	return n
}

// noiseContent is an incompressible, reproducible byte string.
func noiseContent(seed, n int) []byte {
	out := make([]byte, 0, n+32)
	h := sha256.Sum256([]byte(fmt.Sprintf("zpkggen noise %d", seed)))
	for len(out) < n {
		out = append(out, h[:]...)
		h = sha256.Sum256(h[:])
	}
	return out[:n]
}

const appxManifestXML = `<?xml version="1.0" encoding="utf-8"?>
<Package xmlns="http://schemas.microsoft.com/appx/manifest/foundation/windows10" xmlns:uap="http://schemas.microsoft.com/appx/manifest/uap/windows10" IgnorableNamespaces="uap">
  <Identity Name="Verif.App" Publisher="CN=placeholder" Version="1.0.0.0" ProcessorArchitecture="x64" />
  <Properties>
    <DisplayName>Verif App</DisplayName>
    <PublisherDisplayName>verif</PublisherDisplayName>
    <Logo>a.png</Logo>
  </Properties>
  <Dependencies>
    <TargetDeviceFamily Name="Windows.Universal" MinVersion="10.0.0.0" MaxVersionTested="10.0.0.0" />
  </Dependencies>
  <Resources>
    <Resource Language="en-us" />
  </Resources>
</Package>
`

const blockSize = 65536

// blockDeflate compresses data the way an APPX block map needs it: every
// 64 KiB block of input ends on a sync-flush boundary so that the compressed
// size of each block is known. Returns the raw deflate stream and the sizes.
func blockDeflate(data []byte) ([]byte, []int) {
	var z bytes.Buffer
	fw, _ := flate.NewWriter(&z, 6)
	var sizes []int
	last := 0
	for off := 0; off < len(data); off += blockSize {
		end := off + blockSize
		if end > len(data) {
			end = len(data)
		}
		_, _ = fw.Write(data[off:end])
		if end == len(data) {
			_ = fw.Close()
		} else {
			_ = fw.Flush()
		}
		sizes = append(sizes, z.Len()-last)
		last = z.Len()
	}
	if len(data) == 0 {
		_ = fw.Close()
	}
	return z.Bytes(), sizes
}

func BuildAppx(s AppxSpec) []byte {
	exts := []string{"png", "txt", "xml"}
	var ms []M
	type bmFile struct {
		name   string
		size   int
		lfh    int
		hashes []string
		csizes []int
	}
	var bm []bmFile
	defaults := map[string]string{}
	overrides := map[string]string{}
	addMember := func(name string, data []byte, mode string) {
		m := M{Name: name, Data: data}
		f := bmFile{name: strings.ReplaceAll(name, "/", "\\"), size: len(data), lfh: 30 + len(name)}
		for off := 0; off < len(data); off += blockSize {
			end := off + blockSize
			if end > len(data) {
				end = len(data)
			}
			d := sha256.Sum256(data[off:end])
			f.hashes = append(f.hashes, base64.StdEncoding.EncodeToString(d[:]))
		}
		switch mode {
		case "deflate", "deflate-dd":
			m.RawDeflate, f.csizes = blockDeflate(data)
			m.DD = mode == "deflate-dd"
		}
		ms = append(ms, m)
		bm = append(bm, f)
		ext := strings.TrimPrefix(path.Ext(path.Base(name)), ".")
		switch {
		case ext == "":
			overrides["/"+name] = "application/octet-stream"
		case strings.EqualFold(ext, "png"):
			defaults[ext] = "image/png"
		case strings.EqualFold(ext, "xml"):
			defaults[ext] = "application/vnd.ms-appx.manifest+xml"
		case strings.EqualFold(ext, "exe"), strings.EqualFold(ext, "dll"):
			defaults[ext] = "application/x-msdownload"
		default:
			defaults[ext] = "application/octet-stream"
		}
	}
	if !s.NoPE {
		pe, _ := pegen.Build(pegen.Canonical())
		addMember("app.exe", pe, s.Mode)
	}
	for i, sz := range s.Sizes {
		name := fmt.Sprintf("%c.%s", 'a'+i, exts[i%len(exts)])
		data := Content(i+1, sz)
		if s.Noise {
			data = noiseContent(i+1, sz)
		}
		switch s.Names {
		case "noext":
			if i == 0 {
				name = "LICENSE"
			}
		case "subdir":
			name = "Assets/" + name
		case "upper":
			name = strings.ToUpper(name)
		}
		addMember(name, data, s.Mode)
	}
	// the manifest is always stored (it is rewritten by the signer)
	addMember("AppxManifest.xml", []byte(strings.ReplaceAll(appxManifestXML, "\n", "\r\n")), "stored")
	if !s.NoBlock {
		var x strings.Builder
		x.WriteString(`<?xml version="1.0" encoding="UTF-8" standalone="no"?>` + "\r\n")
		x.WriteString(`<BlockMap xmlns="http://schemas.microsoft.com/appx/2010/blockmap" HashMethod="http://www.w3.org/2001/04/xmlenc#sha256">`)
		for _, f := range bm {
			fmt.Fprintf(&x, `<File Name="%s" Size="%d" LfhSize="%d">`, f.name, f.size, f.lfh)
			for i, h := range f.hashes {
				if f.csizes != nil {
					fmt.Fprintf(&x, `<Block Hash="%s" Size="%d"/>`, h, f.csizes[i])
				} else {
					fmt.Fprintf(&x, `<Block Hash="%s"/>`, h)
				}
			}
			x.WriteString(`</File>`)
		}
		x.WriteString(`</BlockMap>`)
		ms = append(ms, M{Name: "AppxBlockMap.xml", Data: []byte(x.String()), Deflate: true})
		overrides["/AppxBlockMap.xml"] = "application/vnd.ms-appx.blockmap+xml"
		var c strings.Builder
		c.WriteString(`<?xml version="1.0" encoding="UTF-8"?>` + "\r\n")
		c.WriteString(`<Types xmlns="http://schemas.openxmlformats.org/package/2006/content-types">`)
		var ks []string
		for k := range defaults {
			ks = append(ks, k)
		}
		sort.Strings(ks)
		for _, k := range ks {
			fmt.Fprintf(&c, `<Default Extension="%s" ContentType="%s"/>`, k, defaults[k])
		}
		ks = ks[:0]
		for k := range overrides {
			ks = append(ks, k)
		}
		sort.Strings(ks)
		for _, k := range ks {
			fmt.Fprintf(&c, `<Override PartName="%s" ContentType="%s"/>`, k, overrides[k])
		}
		c.WriteString(`</Types>`)
		ms = append(ms, M{Name: "[Content_Types].xml", Data: []byte(c.String()), Deflate: true})
	}
	return BuildZip(ms)
}

type blockMapXML struct {
	HashMethod string `xml:"HashMethod,attr"`
	File       []struct {
		Name  string `xml:"Name,attr"`
		Size  int    `xml:"Size,attr"`
		Block []struct {
			Hash string `xml:"Hash,attr"`
		}
	}
}

func checkAppx(noBlock bool) func(b []byte) error {
	return func(b []byte) error {
		files, order, err := ReadZip(b)
		if err != nil {
			return err
		}
		man, ok := files["AppxManifest.xml"]
		if !ok {
			return fmt.Errorf("AppxManifest.xml missing")
		}
		var any struct{ XMLName xml.Name }
		if err := xml.Unmarshal(man, &any); err != nil || any.XMLName.Local != "Package" {
			return fmt.Errorf("manifest is not a Package document: %v", err)
		}
		if noBlock {
			return nil
		}
		var bm blockMapXML
		if err := xml.Unmarshal(files["AppxBlockMap.xml"], &bm); err != nil {
			return fmt.Errorf("block map: %w", err)
		}
		i := 0
		for _, name := range order {
			if name == "AppxBlockMap.xml" || name == "[Content_Types].xml" {
				continue
			}
			if i >= len(bm.File) {
				return fmt.Errorf("block map lacks %s", name)
			}
			f := bm.File[i]
			i++
			data := files[name]
			if f.Name != strings.ReplaceAll(name, "/", "\\") || f.Size != len(data) {
				return fmt.Errorf("block map entry %q/%d does not match member %q/%d", f.Name, f.Size, name, len(data))
			}
			if len(f.Block) != (len(data)+blockSize-1)/blockSize {
				return fmt.Errorf("block count for %s", name)
			}
			for k, blk := range f.Block {
				end := (k + 1) * blockSize
				if end > len(data) {
					end = len(data)
				}
				d := sha256.Sum256(data[k*blockSize : end])
				if blk.Hash != base64.StdEncoding.EncodeToString(d[:]) {
					return fmt.Errorf("block map hash mismatch for %s block %d", name, k)
				}
			}
		}
		var ct struct{ XMLName xml.Name }
		if err := xml.Unmarshal(files["[Content_Types].xml"], &ct); err != nil || ct.XMLName.Local != "Types" {
			return fmt.Errorf("content types: %v", err)
		}
		return nil
	}
}

func mkAppx(s AppxSpec, class string, strict bool) shape.Shape {
	return shape.Shape{Name: s.Name(), Class: class, File: "a.appx", Strict: strict, Source: "generated",
		Build: func() ([]byte, error) { return BuildAppx(s), nil }, Check: checkAppx(s.NoBlock)}
}

func CanonicalAppx() AppxSpec { return AppxSpec{Sizes: []int{500, 40}, Mode: "deflate", Names: "ext"} }

// AppxShapes: canonical first.
//
// quick: 1-3 payload files, empty file, stored / block-deflate / data
// descriptors, a payload file without extension (Override content type), files
// in a sub-directory, upper-case extension, a content-only package without any PE image (no
// CodeIntegrity.cat needed), payload of 64 KiB-1 / 64 KiB / 64 KiB+1 (block map block
// boundary) and 1 MiB+1; lenient: no block map / content types yet.
// thorough: mode x names x sizes over {0,1,300} x 1..3 files and the ladder.
func AppxShapes(thorough bool) []shape.Shape {
	var out []shape.Shape
	out = append(out, mkAppx(CanonicalAppx(), "canonical", true))
	with := func(f func(*AppxSpec)) AppxSpec { s := CanonicalAppx(); f(&s); return s }
	out = append(out,
		mkAppx(with(func(s *AppxSpec) { s.Sizes = []int{9} }), "files-1", true),
		mkAppx(with(func(s *AppxSpec) { s.Sizes = []int{9, 0, 12} }), "files-3-one-empty", true),
		mkAppx(with(func(s *AppxSpec) { s.Sizes = nil }), "files-0-manifest-only", true),
		mkAppx(with(func(s *AppxSpec) { s.Mode = "stored" }), "stored", true),
		mkAppx(with(func(s *AppxSpec) { s.Mode = "deflate-dd" }), "data-descriptors", true),
		mkAppx(with(func(s *AppxSpec) { s.Names = "noext" }), "payload-name-without-extension", true),
		mkAppx(with(func(s *AppxSpec) { s.Names = "subdir" }), "payload-in-subdirectory", true),
		mkAppx(with(func(s *AppxSpec) { s.Names = "upper" }), "payload-uppercase-extension", true),
		mkAppx(with(func(s *AppxSpec) { s.NoPE = true }), "content-only-no-executable", true),
		mkAppx(with(func(s *AppxSpec) { s.NoPE = true; s.Sizes = []int{7}; s.Mode = "stored" }), "content-only-no-executable", true),
		mkAppx(with(func(s *AppxSpec) { s.Sizes = []int{65535, 65536, 65537}; s.Mode = "stored" }), "size-64KiB-block-boundary-stored", true),
		mkAppx(with(func(s *AppxSpec) { s.Sizes = []int{65537} }), "size-64KiB+1-deflate", true),
		mkAppx(with(func(s *AppxSpec) { s.Sizes = []int{1<<20 + 1}; s.Mode = "stored" }), "size-1MiB+1-stored", true),
		mkAppx(with(func(s *AppxSpec) { s.NoBlock = true; s.Mode = "stored" }), "no-blockmap-stored", false),
		// incompressible members whose size is a multiple of the inflater's 32 KiB window: the deflate stream ends
		// with an empty final block that a reader driven by the uncompressed size never has to look at
		mkAppx(with(func(s *AppxSpec) { s.Sizes = []int{32768, 131072}; s.Noise = true }), "incompressible-32KiB-multiples-deflate", true),
		mkAppx(with(func(s *AppxSpec) { s.Sizes = []int{32767, 65536}; s.Noise = true; s.Mode = "deflate-dd" }), "incompressible-32KiB-multiples-deflate", true),
	)
	if !thorough {
		return out
	}
	seen := map[string]bool{}
	for _, s := range out {
		seen[s.Name] = true
	}
	add := func(s AppxSpec, class string) {
		if !seen[s.Name()] {
			seen[s.Name()] = true
			out = append(out, mkAppx(s, class, true))
		}
	}
	small := []int{0, 1, 300}
	for _, mode := range []string{"deflate", "stored", "deflate-dd"} {
		for _, names := range []string{"ext", "noext", "subdir"} {
			class := "grid-" + mode + "-" + names
			if names == "noext" {
				class = "payload-name-without-extension"
			}
			for _, a := range small {
				add(AppxSpec{Sizes: []int{a}, Mode: mode, Names: names}, class)
				for _, b := range small {
					add(AppxSpec{Sizes: []int{a, b}, Mode: mode, Names: names}, class)
					add(AppxSpec{Sizes: []int{a, b, 7}, Mode: mode, Names: names}, class)
				}
			}
		}
		for _, sz := range Ladder {
			add(AppxSpec{Sizes: []int{sz}, Mode: mode, Names: "ext"}, fmt.Sprintf("ladder-%s-%d", mode, sz))
		}
	}
	return out
}

// ---------- VSIX ----------

type VsixSpec struct {
	Sizes []int
	Mode  string // "deflate" | "stored" | "jartool"
	Names string // "ext" | "noext" (part LICENSE with an Override) | "subdir" | "upper" | "direntry" (a ZIP directory item, not an OPC part) | "space" (a part name with an escaped space)
}

func (s VsixSpec) Name() string {
	var ss []string
	for _, x := range s.Sizes {
		ss = append(ss, fmt.Sprint(x))
	}
	return fmt.Sprintf("vsix/%s/names=%s/sizes=%s", s.Mode, s.Names, strings.Join(ss, ","))
}

const vsixManifest = `<?xml version="1.0" encoding="utf-8"?>
<PackageManifest Version="2.0.0" xmlns="http://schemas.microsoft.com/developer/vsx-schema/2011">
  <Metadata>
    <Identity Id="verif.ext.0001" Version="1.0" Language="en-US" Publisher="verif" />
    <DisplayName>verif extension</DisplayName>
    <Description xml:space="preserve">generated</Description>
  </Metadata>
  <Installation>
    <InstallationTarget Id="Microsoft.VisualStudio.Community" Version="[15.0,)" />
  </Installation>
  <Assets />
</PackageManifest>
`

func BuildVsix(s VsixSpec) []byte {
	exts := []string{"dll", "pkgdef", "txt"}
	defaults := map[string]string{"vsixmanifest": "text/xml"}
	overrides := map[string]string{}
	var ms []M
	mf := M{Name: "extension.vsixmanifest", Data: []byte(vsixManifest)}
	memberMode(s.Mode, &mf)
	ms = append(ms, mf)
	if s.Names == "direntry" {
		ms = append(ms, M{Name: "lib/"})
	}
	for i, sz := range s.Sizes {
		name := fmt.Sprintf("%c.%s", 'a'+i, exts[i%len(exts)])
		switch s.Names {
		case "noext":
			if i == 0 {
				name = "LICENSE"
			}
		case "subdir", "direntry":
			name = "lib/" + name
		case "upper":
			name = strings.ToUpper(name)
		case "space":
			if i == 0 {
				name = "my%20file.txt"
			}
		}
		m := M{Name: name, Data: Content(i+4, sz)}
		memberMode(s.Mode, &m)
		ms = append(ms, m)
		ext := strings.TrimPrefix(path.Ext(path.Base(name)), ".")
		if ext == "" {
			overrides["/"+name] = "text/plain"
		} else {
			defaults[ext] = "application/octet-stream"
		}
	}
	var c strings.Builder
	c.WriteString(`<?xml version="1.0" encoding="utf-8"?><Types xmlns="http://schemas.openxmlformats.org/package/2006/content-types">`)
	var ks []string
	for k := range defaults {
		ks = append(ks, k)
	}
	sort.Strings(ks)
	for _, k := range ks {
		fmt.Fprintf(&c, `<Default Extension="%s" ContentType="%s" />`, k, defaults[k])
	}
	ks = ks[:0]
	for k := range overrides {
		ks = append(ks, k)
	}
	sort.Strings(ks)
	for _, k := range ks {
		fmt.Fprintf(&c, `<Override PartName="%s" ContentType="%s" />`, k, overrides[k])
	}
	c.WriteString(`</Types>`)
	ct := M{Name: "[Content_Types].xml", Data: []byte(c.String())}
	memberMode(s.Mode, &ct)
	ms = append(ms, ct)
	return BuildZip(ms)
}

func mkVsix(s VsixSpec, class string, strict bool) shape.Shape {
	return shape.Shape{Name: s.Name(), Class: class, File: "a.vsix", Strict: strict, Source: "generated",
		Build: func() ([]byte, error) { return BuildVsix(s), nil },
		Check: func(b []byte) error {
			files, _, err := ReadZip(b)
			if err != nil {
				return err
			}
			for _, n := range []string{"extension.vsixmanifest", "[Content_Types].xml"} {
				var any struct{ XMLName xml.Name }
				if err := xml.Unmarshal(files[n], &any); err != nil {
					return fmt.Errorf("%s: %w", n, err)
				}
			}
			return nil
		}}
}

func CanonicalVsix() VsixSpec { return VsixSpec{Sizes: []int{700, 30}, Mode: "deflate", Names: "ext"} }

// VsixShapes: canonical first.
//
// quick: 1-3 parts, empty part, stored / deflate / data descriptors, a part
// without extension (Override), sub-directory, upper-case extension, escaped
// space, 64 KiB+1, 1 MiB; lenient: a ZIP directory item.
// thorough: mode x names x sizes over {0,1,300} x 1..3 parts and the ladder.
func VsixShapes(thorough bool) []shape.Shape {
	var out []shape.Shape
	out = append(out, mkVsix(CanonicalVsix(), "canonical", true))
	with := func(f func(*VsixSpec)) VsixSpec { s := CanonicalVsix(); f(&s); return s }
	out = append(out,
		mkVsix(with(func(s *VsixSpec) { s.Sizes = []int{8} }), "parts-1", true),
		mkVsix(with(func(s *VsixSpec) { s.Sizes = []int{8, 0, 3} }), "parts-3-one-empty", true),
		mkVsix(with(func(s *VsixSpec) { s.Sizes = nil }), "manifest-only", true),
		mkVsix(with(func(s *VsixSpec) { s.Mode = "stored" }), "stored", true),
		mkVsix(with(func(s *VsixSpec) { s.Mode = "jartool" }), "data-descriptors", true),
		mkVsix(with(func(s *VsixSpec) { s.Names = "noext" }), "part-name-without-extension", true),
		mkVsix(with(func(s *VsixSpec) { s.Names = "subdir" }), "part-in-subdirectory", true),
		mkVsix(with(func(s *VsixSpec) { s.Names = "upper" }), "part-uppercase-extension", true),
		mkVsix(with(func(s *VsixSpec) { s.Names = "space" }), "part-name-escaped-space", true),
		mkVsix(with(func(s *VsixSpec) { s.Sizes = []int{65537} }), "size-64KiB+1", true),
		mkVsix(with(func(s *VsixSpec) { s.Sizes = []int{1 << 20, 2}; s.Mode = "stored" }), "size-1MiB-stored", true),
		mkVsix(with(func(s *VsixSpec) { s.Names = "direntry" }), "zip-directory-item", false),
	)
	if !thorough {
		return out
	}
	seen := map[string]bool{}
	for _, s := range out {
		seen[s.Name] = true
	}
	add := func(s VsixSpec, class string) {
		if !seen[s.Name()] {
			seen[s.Name()] = true
			out = append(out, mkVsix(s, class, true))
		}
	}
	small := []int{0, 1, 300}
	for _, mode := range []string{"deflate", "stored", "jartool"} {
		for _, names := range []string{"ext", "noext", "subdir"} {
			class := "grid-" + mode + "-" + names
			if names == "noext" {
				class = "part-name-without-extension"
			}
			for _, a := range small {
				add(VsixSpec{Sizes: []int{a}, Mode: mode, Names: names}, class)
				for _, b := range small {
					add(VsixSpec{Sizes: []int{a, b}, Mode: mode, Names: names}, class)
					add(VsixSpec{Sizes: []int{a, b, 7}, Mode: mode, Names: names}, class)
				}
			}
		}
		for _, sz := range Ladder {
			add(VsixSpec{Sizes: []int{sz}, Mode: mode, Names: "ext"}, fmt.Sprintf("ladder-%s-%d", mode, sz))
		}
	}
	return out
}

// Package zpkggen generates the ZIP-based package types relic signs (JAR, APK,
// XAP, APPX, VSIX) with a tiny ZIP writer written from APPNOTE.TXT: stored or
// deflated members, optional data descriptors (general-purpose bit 3), extra
// fields, directory entries, long names. It does not import relic; every
// archive is re-read with archive/zip by Check.
package zpkggen

import (
	"archive/zip"
	"bytes"
	"compress/flate"
	"encoding/binary"
	"fmt"
	"hash/crc32"
	"io"
)

// M is one member.
type M struct {
	Name    string
	Data    []byte
	Deflate bool
	DD      bool   // data descriptor (with signature) after the data, sizes zero in the local header
	Extra   []byte // same bytes in local and central header
	Pad     int    // extra zero bytes in the LOCAL extra field only (zipalign style)
	// RawDeflate, if non-nil, is a complete raw deflate stream of Data that is
	// stored as the member's compressed bytes (method 8) instead of
	// compressing Data here.
	RawDeflate []byte
}

// Content is the deterministic member content: compressible, not constant.
func Content(seed, n int) []byte {
	b := make([]byte, n)
	for j := range b {
		b[j] = byte('A' + (seed+(j/13)%7+(j>>9)%5)%26)
	}
	return b
}

// BuildZip writes the archive; members in the given order, central directory
// in the same order, no archive comment.
func BuildZip(ms []M) []byte {
	var b bytes.Buffer
	le := binary.LittleEndian
	type cd struct {
		m          M
		off        int
		crc        uint32
		csize, usz uint32
		method     uint16
		flags      uint16
	}
	var cds []cd
	for _, m := range ms {
		c := cd{m: m, off: b.Len(), crc: crc32.ChecksumIEEE(m.Data), usz: uint32(len(m.Data))}
		payload := m.Data
		if m.RawDeflate != nil {
			payload = m.RawDeflate
			c.method = 8
		} else if m.Deflate {
			var z bytes.Buffer
			fw, _ := flate.NewWriter(&z, 6)
			_, _ = fw.Write(m.Data)
			_ = fw.Close()
			payload = z.Bytes()
			c.method = 8
		}
		c.csize = uint32(len(payload))
		if m.DD {
			c.flags |= 8
		}
		h := make([]byte, 30)
		le.PutUint32(h[0:], 0x04034b50)
		le.PutUint16(h[4:], 20)
		le.PutUint16(h[6:], c.flags)
		le.PutUint16(h[8:], c.method)
		le.PutUint16(h[10:], 0x6000) // 12:00:00
		le.PutUint16(h[12:], 0x5221) // 2021-01-01
		if !m.DD {
			le.PutUint32(h[14:], c.crc)
			le.PutUint32(h[18:], c.csize)
			le.PutUint32(h[22:], c.usz)
		}
		le.PutUint16(h[26:], uint16(len(m.Name)))
		le.PutUint16(h[28:], uint16(len(m.Extra)+m.Pad))
		b.Write(h)
		b.WriteString(m.Name)
		b.Write(m.Extra)
		b.Write(make([]byte, m.Pad))
		b.Write(payload)
		if m.DD {
			d := make([]byte, 16)
			le.PutUint32(d[0:], 0x08074b50)
			le.PutUint32(d[4:], c.crc)
			le.PutUint32(d[8:], c.csize)
			le.PutUint32(d[12:], c.usz)
			b.Write(d)
		}
		cds = append(cds, c)
	}
	cdOff := b.Len()
	for _, c := range cds {
		h := make([]byte, 46)
		le.PutUint32(h[0:], 0x02014b50)
		le.PutUint16(h[4:], 20)
		le.PutUint16(h[6:], 20)
		le.PutUint16(h[8:], c.flags)
		le.PutUint16(h[10:], c.method)
		le.PutUint16(h[12:], 0x6000)
		le.PutUint16(h[14:], 0x5221)
		le.PutUint32(h[16:], c.crc)
		le.PutUint32(h[20:], c.csize)
		le.PutUint32(h[24:], c.usz)
		le.PutUint16(h[28:], uint16(len(c.m.Name)))
		le.PutUint16(h[30:], uint16(len(c.m.Extra)))
		if len(c.m.Name) > 0 && c.m.Name[len(c.m.Name)-1] == '/' {
			le.PutUint32(h[38:], 0x10) // directory attribute
		}
		le.PutUint32(h[42:], uint32(c.off))
		b.Write(h)
		b.WriteString(c.m.Name)
		b.Write(c.m.Extra)
	}
	cdSize := b.Len() - cdOff
	e := make([]byte, 22)
	le.PutUint32(e[0:], 0x06054b50)
	le.PutUint16(e[8:], uint16(len(cds)))
	le.PutUint16(e[10:], uint16(len(cds)))
	le.PutUint32(e[12:], uint32(cdSize))
	le.PutUint32(e[16:], uint32(cdOff))
	b.Write(e)
	return b.Bytes()
}

// ReadZip is the independent reader: archive/zip, every member opened and
// read to the end (which checks the CRC), returning name -> content.
func ReadZip(b []byte) (map[string][]byte, []string, error) {
	zr, err := zip.NewReader(bytes.NewReader(b), int64(len(b)))
	if err != nil {
		return nil, nil, err
	}
	out := map[string][]byte{}
	var order []string
	for _, f := range zr.File {
		rc, err := f.Open()
		if err != nil {
			return nil, nil, fmt.Errorf("%s: %w", f.Name, err)
		}
		d, err := io.ReadAll(rc)
		rc.Close()
		if err != nil {
			return nil, nil, fmt.Errorf("%s: %w", f.Name, err)
		}
		if _, dup := out[f.Name]; dup {
			return nil, nil, fmt.Errorf("duplicate member %s", f.Name)
		}
		out[f.Name] = d
		order = append(order, f.Name)
	}
	return out, order, nil
}

package zpkggen

import (
	"bytes"
	"crypto/sha256"
	"encoding/base64"
	"fmt"
	"strings"

	"verif/gen/shape"
)

// Ladder is the member-size ladder.
var Ladder = []int{0, 1, 511, 512, 513, 4095, 4096, 4097, 65535, 65536, 65537, 1<<20 - 1, 1 << 20, 1<<20 + 1}

// JarSpec describes one JAR.
type JarSpec struct {
	Sizes      []int  // payload member sizes
	Mode       string // "jartool" (deflate + data descriptors, like jar(1)), "stored", "deflate"
	Manifest   string // "main-only" | "sections" (per-file SHA-256-Digest entries) | "lf" (main-only, LF line ends) | "none" | "no-final-blank-line"
	MetaDir    bool   // META-INF/ directory entry first (with the 0xCAFE extra)
	ManLast    bool   // manifest is the LAST member instead of the first
	LongNames  bool   // 300-character member names (manifest lines must be wrapped)
	DirEntry   bool   // a directory entry "pkg/" for the payload
	OtherMeta  bool   // extra files under META-INF/ (services file, a text file, a nested directory)
	ForeignSig bool   // pre-existing META-INF/OTHER.SF + OTHER.RSA with arbitrary bytes
}

func (s JarSpec) Name() string {
	var ss []string
	for _, x := range s.Sizes {
		ss = append(ss, fmt.Sprint(x))
	}
	n := fmt.Sprintf("jar/%s/manifest=%s/sizes=%s", s.Mode, s.Manifest, strings.Join(ss, ","))
	for _, f := range []struct {
		on bool
		n  string
	}{{s.MetaDir, "metadir"}, {s.ManLast, "manifest-last"}, {s.LongNames, "longnames"}, {s.DirEntry, "direntry"}, {s.OtherMeta, "othermeta"}, {s.ForeignSig, "foreignsig"}} {
		if f.on {
			n += "/" + f.n
		}
	}
	return n
}

// wrap72 writes "key: value" with the 72-byte line limit of the JAR
// specification (continuation lines start with one space).
func wrap72(b *strings.Builder, key, value, eol string) {
	line := key + ": " + value
	first := true
	for len(line) > 0 {
		n := 72
		if !first {
			b.WriteByte(' ')
			n = 71
		}
		if n > len(line) {
			n = len(line)
		}
		b.WriteString(line[:n])
		b.WriteString(eol)
		line = line[n:]
		first = false
	}
}

func memberMode(mode string, m *M) {
	switch mode {
	case "jartool":
		m.Deflate, m.DD = true, true
	case "deflate":
		m.Deflate = true
	}
}

func payloadNames(n int, long, pkg bool, exts []string) []string {
	var out []string
	for i := 0; i < n; i++ {
		name := fmt.Sprintf("f%d.%s", i, exts[i%len(exts)])
		if long {
			name = strings.Repeat("n", 290) + name
		}
		if pkg {
			name = "pkg/" + name
		}
		out = append(out, name)
	}
	return out
}

func BuildJar(s JarSpec) []byte {
	var ms []M
	names := payloadNames(len(s.Sizes), s.LongNames, s.DirEntry, []string{"class", "txt", "properties"})
	var payload []M
	if s.DirEntry {
		payload = append(payload, M{Name: "pkg/"})
	}
	for i, sz := range s.Sizes {
		m := M{Name: names[i], Data: Content(i+1, sz)}
		memberMode(s.Mode, &m)
		payload = append(payload, m)
	}
	eol := "\r\n"
	if s.Manifest == "lf" {
		eol = "\n"
	}
	var man strings.Builder
	man.WriteString("Manifest-Version: 1.0" + eol)
	man.WriteString("Created-By: 17.0.1 (verif)" + eol)
	man.WriteString(eol)
	if s.Manifest == "sections" {
		for _, m := range payload {
			if strings.HasSuffix(m.Name, "/") {
				continue
			}
			wrap72(&man, "Name", m.Name, eol)
			d := sha256.Sum256(m.Data)
			wrap72(&man, "SHA-256-Digest", base64.StdEncoding.EncodeToString(d[:]), eol)
			man.WriteString(eol)
		}
	}
	manBytes := []byte(man.String())
	if s.Manifest == "no-final-blank-line" {
		manBytes = bytes.TrimSuffix(manBytes, []byte(eol))
	}
	if s.MetaDir {
		ms = append(ms, M{Name: "META-INF/", Extra: []byte{0xfe, 0xca, 0, 0}})
	}
	manM := M{Name: "META-INF/MANIFEST.MF", Data: manBytes}
	memberMode(s.Mode, &manM)
	if s.Manifest != "none" && !s.ManLast {
		ms = append(ms, manM)
	}
	if s.OtherMeta {
		a := M{Name: "META-INF/services/java.sql.Driver", Data: []byte("com.example.Driver\n")}
		b := M{Name: "META-INF/NOTICE.txt", Data: []byte("notice\n")}
		memberMode(s.Mode, &a)
		memberMode(s.Mode, &b)
		ms = append(ms, a, b)
	}
	if s.ForeignSig {
		ms = append(ms, M{Name: "META-INF/OTHER.SF", Data: []byte("Signature-Version: 1.0\r\n\r\n")}, M{Name: "META-INF/OTHER.RSA", Data: Content(9, 700)})
	}
	ms = append(ms, payload...)
	if s.Manifest != "none" && s.ManLast {
		ms = append(ms, manM)
	}
	return BuildZip(ms)
}

func checkZipHas(required ...string) func(b []byte) error {
	return func(b []byte) error {
		files, _, err := ReadZip(b)
		if err != nil {
			return err
		}
		for _, r := range required {
			if _, ok := files[r]; !ok {
				return fmt.Errorf("member %s missing", r)
			}
		}
		return nil
	}
}

func mkJar(s JarSpec, class string, strict bool) shape.Shape {
	req := []string{"META-INF/MANIFEST.MF"}
	if s.Manifest == "none" {
		req = nil
	}
	return shape.Shape{Name: s.Name(), Class: class, File: "a.jar", Strict: strict, Source: "generated",
		Build: func() ([]byte, error) { return BuildJar(s), nil }, Check: checkZipHas(req...)}
}

func CanonicalJar() JarSpec {
	return JarSpec{Sizes: []int{300, 20}, Mode: "jartool", Manifest: "main-only", MetaDir: true}
}

// JarShapes: canonical first.
//
// quick: jar(1)-style (deflate + data descriptors, META-INF/ entry) with 1-3
// members, an empty member, stored and plain-deflate variants, manifest with
// per-file sections, LF manifest, manifest last, no META-INF/ entry, long
// (wrapped) names, directory entry, other META-INF content, members of 64 KiB+1
// and 1 MiB; lenient: manifest without the final blank line, no manifest,
// foreign signature files with arbitrary content.
//
// thorough: mode x manifest kind x {1,2,3 members over {0,1,300}} plus the size
// ladder as a single member in each mode.
func JarShapes(thorough bool) []shape.Shape {
	var out []shape.Shape
	out = append(out, mkJar(CanonicalJar(), "canonical", true))
	with := func(f func(*JarSpec)) JarSpec { s := CanonicalJar(); f(&s); return s }
	out = append(out,
		mkJar(with(func(s *JarSpec) { s.Sizes = []int{1} }), "members-1", true),
		mkJar(with(func(s *JarSpec) { s.Sizes = []int{5, 0, 7} }), "members-3-one-empty", true),
		mkJar(with(func(s *JarSpec) { s.Sizes = nil }), "members-0-manifest-only", true),
		mkJar(with(func(s *JarSpec) { s.Mode = "stored" }), "stored", true),
		mkJar(with(func(s *JarSpec) { s.Mode = "deflate" }), "deflate-no-descriptor", true),
		mkJar(with(func(s *JarSpec) { s.Manifest = "sections" }), "manifest-with-digest-sections", true),
		mkJar(with(func(s *JarSpec) { s.Manifest = "lf" }), "manifest-lf-line-ends", true),
		mkJar(with(func(s *JarSpec) { s.ManLast = true }), "manifest-last-member", true),
		mkJar(with(func(s *JarSpec) { s.MetaDir = false }), "no-metainf-dir-entry", true),
		mkJar(with(func(s *JarSpec) { s.LongNames = true; s.Manifest = "sections" }), "long-names-wrapped-manifest", true),
		mkJar(with(func(s *JarSpec) { s.DirEntry = true }), "directory-entry", true),
		mkJar(with(func(s *JarSpec) { s.OtherMeta = true }), "other-metainf-files", true),
		mkJar(with(func(s *JarSpec) { s.Sizes = []int{65537} }), "size-64KiB+1", true),
		mkJar(with(func(s *JarSpec) { s.Sizes = []int{1 << 20, 3}; s.Mode = "stored" }), "size-1MiB-stored", true),
		mkJar(with(func(s *JarSpec) { s.Manifest = "no-final-blank-line" }), "manifest-without-final-blank-line", false),
		mkJar(with(func(s *JarSpec) { s.Manifest = "none" }), "no-manifest", false),
		mkJar(with(func(s *JarSpec) { s.ForeignSig = true }), "foreign-signature-files-arbitrary", false),
	)
	if !thorough {
		return out
	}
	seen := map[string]bool{}
	for _, s := range out {
		seen[s.Name] = true
	}
	add := func(s JarSpec, class string) {
		if !seen[s.Name()] {
			seen[s.Name()] = true
			out = append(out, mkJar(s, class, true))
		}
	}
	small := []int{0, 1, 300}
	for _, mode := range []string{"jartool", "stored", "deflate"} {
		for _, man := range []string{"main-only", "sections", "lf"} {
			for _, a := range small {
				add(JarSpec{Sizes: []int{a}, Mode: mode, Manifest: man, MetaDir: true}, "grid-"+mode+"-"+man)
				for _, b := range small {
					add(JarSpec{Sizes: []int{a, b}, Mode: mode, Manifest: man, MetaDir: true}, "grid-"+mode+"-"+man)
					add(JarSpec{Sizes: []int{a, b, 1}, Mode: mode, Manifest: man, MetaDir: b != 0}, "grid-"+mode+"-"+man)
				}
			}
		}
		for _, sz := range Ladder {
			add(JarSpec{Sizes: []int{sz}, Mode: mode, Manifest: "main-only", MetaDir: true}, fmt.Sprintf("ladder-%s-%d", mode, sz))
		}
	}
	return out
}

// ---------- APK ----------

type ApkSpec struct {
	Sizes    []int  // classes.dex, resources.arsc, res/raw/x.bin sizes (1..3)
	Mode     string // as JarSpec.Mode; resources.arsc is always stored and 4-byte aligned
	Manifest bool   // carries META-INF/MANIFEST.MF (needed for a v1 signature)
	Align    bool   // zipalign-style padding of stored members to 4 bytes
}

func (s ApkSpec) Name() string {
	var ss []string
	for _, x := range s.Sizes {
		ss = append(ss, fmt.Sprint(x))
	}
	n := fmt.Sprintf("apk/%s/sizes=%s", s.Mode, strings.Join(ss, ","))
	if s.Manifest {
		n += "/with-jar-manifest"
	}
	if s.Align {
		n += "/zipaligned"
	}
	return n
}

func BuildApk(s ApkSpec) []byte {
	var ms []M
	if s.Manifest {
		m := M{Name: "META-INF/MANIFEST.MF", Data: []byte("Manifest-Version: 1.0\r\nBuilt-By: verif\r\nCreated-By: Android Gradle 8.0\r\n\r\n")}
		memberMode(s.Mode, &m)
		ms = append(ms, m)
	}
	am := M{Name: "AndroidManifest.xml", Data: append([]byte{3, 0, 8, 0, 0x40, 0, 0, 0}, Content(3, 56)...)}
	memberMode(s.Mode, &am)
	ms = append(ms, am)
	names := []string{"classes.dex", "resources.arsc", "res/raw/x.bin"}
	for i, sz := range s.Sizes {
		m := M{Name: names[i], Data: Content(i+5, sz)}
		if i == 0 && sz >= 8 {
			copy(m.Data, "dex\n035\x00")
		}
		if names[i] != "resources.arsc" {
			memberMode(s.Mode, &m)
		}
		ms = append(ms, m)
	}
	if s.Align {
		// compute the padding that puts the data of every stored member on a
		// 4-byte boundary (what zipalign does)
		off := 0
		for i := range ms {
			m := &ms[i]
			hdr := 30 + len(m.Name) + len(m.Extra)
			if !m.Deflate {
				m.Pad = (4 - (off+hdr)%4) % 4
			}
			single := BuildZip([]M{*m})
			// length of this member's local record = offset of the central directory in a one-member archive
			off += cdOffsetOf(single)
		}
	}
	return BuildZip(ms)
}

func cdOffsetOf(z []byte) int {
	e := z[len(z)-22:]
	return int(uint32(e[16]) | uint32(e[17])<<8 | uint32(e[18])<<16 | uint32(e[19])<<24)
}

func mkApk(s ApkSpec, class string, strict bool) shape.Shape {
	if !s.Manifest {
		// the feature that matters most to signers: nothing for a v1 (JAR) signature to hold on to
		class = "no-jar-manifest"
	}
	return shape.Shape{Name: s.Name(), Class: class, File: "a.apk", Strict: strict, Source: "generated",
		Build: func() ([]byte, error) { return BuildApk(s), nil }, Check: checkZipHas("AndroidManifest.xml")}
}

func CanonicalApk() ApkSpec {
	return ApkSpec{Sizes: []int{400, 100}, Mode: "deflate", Manifest: true, Align: true}
}

// ApkShapes: canonical first (an unsigned, zipaligned build output that also
// carries a JAR manifest so that it can receive a v1 signature).
//
// quick: with/without JAR manifest, 1-3 members, empty member, stored, data
// descriptors, unaligned, 64 KiB+1 and 1 MiB+1 members (the v2 digest works on
// 1 MiB chunks).
// thorough: mode x manifest x alignment x sizes over {0,1,300} and the ladder.
func ApkShapes(thorough bool) []shape.Shape {
	var out []shape.Shape
	out = append(out, mkApk(CanonicalApk(), "canonical", true))
	with := func(f func(*ApkSpec)) ApkSpec { s := CanonicalApk(); f(&s); return s }
	out = append(out,
		mkApk(with(func(s *ApkSpec) { s.Manifest = false }), "no-jar-manifest", true),
		mkApk(with(func(s *ApkSpec) { s.Sizes = []int{50} }), "members-2", true),
		mkApk(with(func(s *ApkSpec) { s.Sizes = []int{50, 0, 9} }), "members-4-one-empty", true),
		mkApk(with(func(s *ApkSpec) { s.Mode = "stored" }), "stored", true),
		mkApk(with(func(s *ApkSpec) { s.Mode = "jartool" }), "data-descriptors", true),
		mkApk(with(func(s *ApkSpec) { s.Align = false }), "not-zipaligned", true),
		mkApk(with(func(s *ApkSpec) { s.Sizes = []int{65537, 10} }), "size-64KiB+1", true),
		mkApk(with(func(s *ApkSpec) { s.Sizes = []int{1 << 20, 10}; s.Mode = "stored" }), "size-1MiB-stored", true),
		mkApk(with(func(s *ApkSpec) { s.Sizes = []int{1<<20 + 1, 1<<20 - 1}; s.Mode = "stored" }), "size-1MiB+1-stored", true),
	)
	if !thorough {
		return out
	}
	seen := map[string]bool{}
	for _, s := range out {
		seen[s.Name] = true
	}
	add := func(s ApkSpec, class string) {
		if !seen[s.Name()] {
			seen[s.Name()] = true
			out = append(out, mkApk(s, class, true))
		}
	}
	small := []int{0, 1, 300}
	for _, mode := range []string{"deflate", "stored", "jartool"} {
		for _, man := range []bool{true, false} {
			for _, al := range []bool{true, false} {
				for _, a := range small {
					add(ApkSpec{Sizes: []int{a}, Mode: mode, Manifest: man, Align: al}, "grid-"+mode)
					for _, b := range small {
						add(ApkSpec{Sizes: []int{a, b}, Mode: mode, Manifest: man, Align: al}, "grid-"+mode)
					}
				}
			}
			for _, sz := range Ladder {
				add(ApkSpec{Sizes: []int{sz, 4}, Mode: mode, Manifest: man, Align: true}, fmt.Sprintf("ladder-%s-%d", mode, sz))
			}
		}
	}
	return out
}

// ---------- XAP ----------

type XapSpec struct {
	Sizes []int // App.dll, Lib.dll, data.xml
	Mode  string
}

func (s XapSpec) Name() string {
	var ss []string
	for _, x := range s.Sizes {
		ss = append(ss, fmt.Sprint(x))
	}
	return fmt.Sprintf("xap/%s/sizes=%s", s.Mode, strings.Join(ss, ","))
}

const xapManifest = `<Deployment xmlns="http://schemas.microsoft.com/client/2007/deployment" xmlns:x="http://schemas.microsoft.com/winfx/2006/xaml" EntryPointAssembly="App" EntryPointType="App.App" RuntimeVersion="5.0.61118.0">
  <Deployment.Parts>
    <AssemblyPart x:Name="App" Source="App.dll" />
  </Deployment.Parts>
</Deployment>
`

func BuildXap(s XapSpec) []byte {
	am := M{Name: "AppManifest.xaml", Data: []byte(xapManifest)}
	memberMode(s.Mode, &am)
	ms := []M{am}
	names := []string{"App.dll", "Lib.dll", "data.xml"}
	for i, sz := range s.Sizes {
		m := M{Name: names[i], Data: Content(i+2, sz)}
		memberMode(s.Mode, &m)
		ms = append(ms, m)
	}
	return BuildZip(ms)
}

func mkXap(s XapSpec, class string) shape.Shape {
	return shape.Shape{Name: s.Name(), Class: class, File: "a.xap", Strict: true, Source: "generated",
		Build: func() ([]byte, error) { return BuildXap(s), nil }, Check: checkZipHas("AppManifest.xaml")}
}

// XapShapes: canonical first. quick: 1-3 parts, empty part, stored /
// deflate / data descriptors, 64 KiB+1, 1 MiB. thorough: mode x sizes over
// {0,1,300} x 1..3 parts and the ladder.
func XapShapes(thorough bool) []shape.Shape {
	out := []shape.Shape{
		mkXap(XapSpec{Sizes: []int{600}, Mode: "deflate"}, "canonical"),
		mkXap(XapSpec{Sizes: []int{600, 50, 7}, Mode: "deflate"}, "parts-3"),
		mkXap(XapSpec{Sizes: []int{600, 0}, Mode: "deflate"}, "part-empty"),
		mkXap(XapSpec{Sizes: nil, Mode: "deflate"}, "manifest-only"),
		mkXap(XapSpec{Sizes: []int{600}, Mode: "stored"}, "stored"),
		mkXap(XapSpec{Sizes: []int{600}, Mode: "jartool"}, "data-descriptors"),
		mkXap(XapSpec{Sizes: []int{65537}, Mode: "deflate"}, "size-64KiB+1"),
		mkXap(XapSpec{Sizes: []int{1 << 20, 1}, Mode: "stored"}, "size-1MiB-stored"),
	}
	if !thorough {
		return out
	}
	seen := map[string]bool{}
	for _, s := range out {
		seen[s.Name] = true
	}
	add := func(s XapSpec, class string) {
		if !seen[s.Name()] {
			seen[s.Name()] = true
			out = append(out, mkXap(s, class))
		}
	}
	small := []int{0, 1, 300}
	for _, mode := range []string{"deflate", "stored", "jartool"} {
		for _, a := range small {
			add(XapSpec{Sizes: []int{a}, Mode: mode}, "grid-"+mode)
			for _, b := range small {
				add(XapSpec{Sizes: []int{a, b}, Mode: mode}, "grid-"+mode)
				for _, c := range small {
					add(XapSpec{Sizes: []int{a, b, c}, Mode: mode}, "grid-"+mode)
				}
			}
		}
		for _, sz := range Ladder {
			add(XapSpec{Sizes: []int{sz}, Mode: mode}, fmt.Sprintf("ladder-%s-%d", mode, sz))
		}
	}
	return out
}

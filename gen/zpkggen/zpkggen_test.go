package zpkggen

import (
	"testing"

	"verif/gen/shape"
)

func TestShapes(t *testing.T) {
	for _, th := range []bool{false, true} {
		for name, f := range map[string]func(bool) []shape.Shape{"jar": JarShapes, "apk": ApkShapes, "xap": XapShapes, "appx": AppxShapes, "vsix": VsixShapes} {
			seen := map[string]bool{}
			ss := f(th)
			for _, s := range ss {
				if seen[s.Name] {
					t.Errorf("duplicate %s", s.Name)
				}
				seen[s.Name] = true
				b, err := s.Build()
				if err != nil {
					t.Fatal(err)
				}
				if err := s.Check(b); err != nil {
					t.Errorf("%s: %v", s.Name, err)
				}
			}
			t.Logf("%s thorough=%v: %d shapes", name, th, len(ss))
		}
	}
}

// Package zipgen is a bounded-exhaustive generator of ZIP archives written
// from PKWARE's APPNOTE.TXT (6.3.x). It does not import relic. Every archive is
// described by a small parameter record (Archive); Build turns it into bytes
// plus a layout map (what the generator itself wrote where).
package zipgen

import (
	"bytes"
	"compress/flate"
	"encoding/binary"
	"fmt"
	"hash/crc32"
	"strings"
)

// Per-member feature values.
const (
	Stored  = 0
	Deflate = 1

	DescNone  = 0 // bit 3 clear
	Desc16    = 1 // signature + crc + 2x32
	Desc12    = 2 // crc + 2x32, no signature
	Desc24    = 3 // signature + crc + 2x64
	Desc20    = 4 // crc + 2x64, no signature
	NumDesc   = 5
	Z64None   = 0
	Z64Cen    = 1 // central header only: sizes and offset masked, 24-byte field
	Z64Both   = 2 // local (sizes) and central (sizes), 16-byte fields
	Z64Offset = 3 // central only, only the offset masked, 8-byte field
	NumZ64    = 4

	ExtraNone    = 0
	ExtraUnknown = 1 // tag 0x7777, 4 data bytes, local and central
	ExtraJar     = 2 // 0xCAFE, empty, local and central
	ExtraPad     = 3 // zipalign-style zero padding (3 bytes) in the local header only
	NumExtra     = 4
	// ExtraHuge (outside the enumerated product): tag 0x7778 with 30000 data
	// bytes, local and central. With Comment 2 (40000 bytes) one central entry's
	// name+extra+comment exceed 64 KiB although every field fits its 16 bits.
	ExtraHuge = 4

	NameShort = 0
	NameDir   = 1
	NameLong  = 2 // 300 bytes
	NameUTF8  = 3 // non-ASCII name, bit 11 set
	NumName   = 4
)

var Sizes = []int{0, 1, 300, 70000}

type Member struct {
	Method  int `json:"method"`
	Size    int `json:"size"` // uncompressed size in bytes
	Desc    int `json:"desc"`
	Zip64   int `json:"zip64"`
	Extra   int `json:"extra"`
	Name    int `json:"name"`
	Comment int `json:"comment"` // 0 none, 1 five bytes
}

type Archive struct {
	Members     []Member `json:"members"`
	EOCDComment int      `json:"eocd_comment"`  // 0 none, 1 ten bytes
	ForceZip64  int      `json:"force_zip64"`   // 0 none, 1 zip64 end+locator with masked EOCD, 2 present with unmasked EOCD
	CDOrder     int      `json:"cd_order"`      // 0 body order, 1 reversed, 2 rotated by one
	GapBetween  bool     `json:"gap_between"`   // 7 unrelated bytes between consecutive members
	GapBeforeCD bool     `json:"gap_before_cd"` // 7 unrelated bytes between the last member and the central directory
	// Prefix: leading data that belongs to no member (a self-extractor stub, a script header).
	// 0 none; 1 the recorded offsets are file offsets (what `zip -A` leaves); 2 the recorded offsets
	// are relative to the first member (what `cat stub a.zip` leaves; both reference readers accept it
	// by taking the position of the directory from the end record and its size).
	Prefix int `json:"prefix,omitempty"`
}

// Stub is the leading data of a prefixed archive: 61 bytes, no record signature in it.
var Stub = []byte("#!/bin/sh\n# self-extracting archive stub; data follows below\n\n")

func (a Archive) String() string {
	var parts []string
	for _, m := range a.Members {
		parts = append(parts, fmt.Sprintf("{%s}", m.Features()))
	}
	return fmt.Sprintf("n=%d %s %s", len(a.Members), strings.Join(parts, ""), a.ArchFeatures())
}

var descNames = []string{"none", "16sig", "12nosig", "24sig", "20nosig"}
var z64Names = []string{"none", "central", "local+central", "central-offset-only"}
var extraNames = []string{"none", "unknown", "jar", "localpad", "huge30000"}
var nameNames = []string{"short", "dir", "long300", "utf8"}

// Features lists the non-default features of a member, "k=v,k=v".
func (m Member) Features() string {
	var f []string
	if m.Method != Stored {
		f = append(f, "method=deflate")
	}
	if m.Size != 1 {
		f = append(f, fmt.Sprintf("size=%d", m.Size))
	}
	if m.Desc != 0 {
		f = append(f, "desc="+descNames[m.Desc])
	}
	if m.Zip64 != 0 {
		f = append(f, "zip64="+z64Names[m.Zip64])
	}
	if m.Extra != 0 {
		f = append(f, "extra="+extraNames[m.Extra])
	}
	if m.Name != 0 {
		f = append(f, "name="+nameNames[m.Name])
	}
	if m.Comment == 1 {
		f = append(f, "comment=5")
	} else if m.Comment == 2 {
		f = append(f, "comment=40000")
	}
	return strings.Join(f, ",")
}

func (a Archive) ArchFeatures() string {
	var f []string
	if a.EOCDComment != 0 {
		f = append(f, "eocdcomment=10")
	}
	if a.ForceZip64 != 0 {
		f = append(f, []string{"", "zip64end=masked", "zip64end=unmasked"}[a.ForceZip64])
	}
	if a.CDOrder != 0 {
		f = append(f, []string{"", "cdorder=reversed", "cdorder=rotated"}[a.CDOrder])
	}
	if a.GapBetween {
		f = append(f, "gap=between")
	}
	if a.GapBeforeCD {
		f = append(f, "gap=beforecd")
	}
	if a.Prefix != 0 {
		f = append(f, []string{"", "prefix=adjusted", "prefix=unadjusted"}[a.Prefix])
	}
	return strings.Join(f, ",")
}

// DefaultMember is the simplest member: stored, one byte, nothing optional.
func DefaultMember() Member { return Member{Size: 1} }

type MemberLayout struct {
	Index        int // body index (position in Archive.Members)
	Name         string
	HeaderOffset int64
	DataOffset   int64
	CompSize     uint64
	Size         uint64
	CRC          uint32
	DescLen      int
	TotalLen     int64 // local header + data + descriptor
	Content      []byte
	CDEntry      []byte // central directory entry as written
}

type Layout struct {
	Members   []MemberLayout // central-directory order
	CDOffset  int64
	CDSize    int64
	EndOffset int64 // first end-of-directory record (zip64 end if present, else EOCD)
	Size      int64
}

// Content returns the deterministic content of member i with n bytes:
// compressible but not constant.
func Content(i, n int) []byte {
	b := make([]byte, n)
	for j := range b {
		b[j] = byte('A' + i + (j/13)%7 + (j>>9)%5)
	}
	return b
}

func MemberName(i int, kind int) string {
	switch kind {
	case NameDir:
		if i == 0 {
			return "d/"
		}
		return fmt.Sprintf("d%d/", i)
	case NameLong:
		return strings.Repeat("n", 299) + string(rune('0'+i))
	case NameUTF8:
		return "é中" + string(rune('0'+i))
	}
	if i >= 26 {
		return fmt.Sprintf("m%d", i) // archives with very many members
	}
	return string(rune('a' + i))
}

func le16(b *bytes.Buffer, v uint16) { binary.Write(b, binary.LittleEndian, v) }
func le32(b *bytes.Buffer, v uint32) { binary.Write(b, binary.LittleEndian, v) }
func le64(b *bytes.Buffer, v uint64) { binary.Write(b, binary.LittleEndian, v) }

const (
	sigLocal   = 0x04034b50
	sigCentral = 0x02014b50
	sigEOCD    = 0x06054b50
	sigEnd64   = 0x06064b50
	sigLoc64   = 0x07064b50
	sigDesc    = 0x08074b50
	dosTime    = 0x6000 // 12:00:00
	dosDate    = 0x5821 // 2024-01-01
)

func otherExtra(kind int, local bool) []byte {
	switch kind {
	case ExtraUnknown:
		return []byte{0x77, 0x77, 4, 0, 1, 2, 3, 4}
	case ExtraJar:
		return []byte{0xfe, 0xca, 0, 0}
	case ExtraPad:
		if local {
			return []byte{0, 0, 0}
		}
	case ExtraHuge:
		b := make([]byte, 4+30000)
		b[0], b[1] = 0x78, 0x77
		b[2], b[3] = byte(30000&0xff), byte(30000>>8)
		for i := 4; i < len(b); i++ {
			b[i] = byte('e' + i%3)
		}
		return b
	}
	return nil
}

// Build serialises the archive.
func Build(a Archive) ([]byte, Layout) {
	if a.Prefix == 2 {
		b := a
		b.Prefix = 0
		blob, lay := Build(b)
		d := int64(len(Stub))
		for i := range lay.Members {
			lay.Members[i].HeaderOffset += d
			lay.Members[i].DataOffset += d
		}
		lay.CDOffset += d
		lay.EndOffset += d
		lay.Size += d
		return append(append([]byte{}, Stub...), blob...), lay
	}
	var out bytes.Buffer
	if a.Prefix == 1 {
		out.Write(Stub)
	}
	n := len(a.Members)
	body := make([]MemberLayout, n)
	type cinfo struct {
		flags, method, verNeeded uint16
	}
	ci := make([]cinfo, n)
	for i, m := range a.Members {
		name := MemberName(i, m.Name)
		content := Content(i, m.Size)
		data := content
		method := uint16(0)
		if m.Method == Deflate {
			var fb bytes.Buffer
			w, _ := flate.NewWriter(&fb, 6)
			w.Write(content)
			w.Close()
			data = fb.Bytes()
			method = 8
		}
		crc := crc32.ChecksumIEEE(content)
		flags := uint16(0)
		if m.Desc != DescNone {
			flags |= 8
		}
		if m.Name == NameUTF8 {
			flags |= 0x800
		}
		ver := uint16(20)
		if m.Zip64 != Z64None || m.Desc == Desc24 || m.Desc == Desc20 {
			ver = 45
		}
		lver := uint16(20)
		if m.Zip64 == Z64Both || m.Desc == Desc24 || m.Desc == Desc20 {
			lver = 45
		}
		hdrOff := int64(out.Len())
		var lextra bytes.Buffer
		lcs, lus, lcrc := uint32(len(data)), uint32(len(content)), crc
		if m.Desc != DescNone {
			lcs, lus, lcrc = 0, 0, 0
		}
		if m.Zip64 == Z64Both {
			le16(&lextra, 1)
			le16(&lextra, 16)
			if m.Desc != DescNone {
				le64(&lextra, 0)
				le64(&lextra, 0)
			} else {
				le64(&lextra, uint64(len(content)))
				le64(&lextra, uint64(len(data)))
				lcs, lus = 0xffffffff, 0xffffffff
			}
		}
		lextra.Write(otherExtra(m.Extra, true))
		le32(&out, sigLocal)
		le16(&out, lver)
		le16(&out, flags)
		le16(&out, method)
		le16(&out, dosTime)
		le16(&out, dosDate)
		le32(&out, lcrc)
		le32(&out, lcs)
		le32(&out, lus)
		le16(&out, uint16(len(name)))
		le16(&out, uint16(lextra.Len()))
		out.WriteString(name)
		out.Write(lextra.Bytes())
		dataOff := int64(out.Len())
		out.Write(data)
		descStart := out.Len()
		switch m.Desc {
		case Desc16, Desc12:
			if m.Desc == Desc16 {
				le32(&out, sigDesc)
			}
			le32(&out, crc)
			le32(&out, uint32(len(data)))
			le32(&out, uint32(len(content)))
		case Desc24, Desc20:
			if m.Desc == Desc24 {
				le32(&out, sigDesc)
			}
			le32(&out, crc)
			le64(&out, uint64(len(data)))
			le64(&out, uint64(len(content)))
		}
		body[i] = MemberLayout{
			Index: i, Name: name, HeaderOffset: hdrOff, DataOffset: dataOff,
			CompSize: uint64(len(data)), Size: uint64(len(content)), CRC: crc,
			DescLen: out.Len() - descStart, TotalLen: int64(out.Len()) - hdrOff, Content: content,
		}
		ci[i] = cinfo{flags, method, ver}
		last := i == n-1
		if (!last && a.GapBetween) || (last && a.GapBeforeCD) {
			out.Write([]byte{0xaa, 0x55, 0xaa, 0x55, 0xaa, 0x55, 0xaa})
		}
	}
	// central directory order
	order := make([]int, n)
	for i := range order {
		switch a.CDOrder {
		case 1:
			order[i] = n - 1 - i
		case 2:
			order[i] = (i + 1) % n
		default:
			order[i] = i
		}
	}
	cdOff := int64(out.Len())
	lay := Layout{CDOffset: cdOff}
	for _, i := range order {
		m := a.Members[i]
		ml := body[i]
		var cextra bytes.Buffer
		ccs, cus, coff := uint32(ml.CompSize), uint32(ml.Size), uint32(ml.HeaderOffset)
		switch m.Zip64 {
		case Z64Cen:
			le16(&cextra, 1)
			le16(&cextra, 24)
			le64(&cextra, ml.Size)
			le64(&cextra, ml.CompSize)
			le64(&cextra, uint64(ml.HeaderOffset))
			ccs, cus, coff = 0xffffffff, 0xffffffff, 0xffffffff
		case Z64Both:
			le16(&cextra, 1)
			le16(&cextra, 16)
			le64(&cextra, ml.Size)
			le64(&cextra, ml.CompSize)
			ccs, cus = 0xffffffff, 0xffffffff
		case Z64Offset:
			le16(&cextra, 1)
			le16(&cextra, 8)
			le64(&cextra, uint64(ml.HeaderOffset))
			coff = 0xffffffff
		}
		cextra.Write(otherExtra(m.Extra, false))
		var comment []byte
		if m.Comment != 0 {
			comment = []byte("cmnt" + string(rune('0'+i)))
			if m.Comment == 2 {
				comment = bytes.Repeat([]byte("comment "), 5000)
			}
		}
		start := out.Len()
		le32(&out, sigCentral)
		le16(&out, 0x031e) // made by: unix, 3.0
		le16(&out, ci[i].verNeeded)
		le16(&out, ci[i].flags)
		le16(&out, ci[i].method)
		le16(&out, dosTime)
		le16(&out, dosDate)
		le32(&out, ml.CRC)
		le32(&out, ccs)
		le32(&out, cus)
		le16(&out, uint16(len(ml.Name)))
		le16(&out, uint16(cextra.Len()))
		le16(&out, uint16(len(comment)))
		le16(&out, 0) // disk
		le16(&out, 0) // internal attrs
		if m.Name == NameDir {
			le32(&out, 0x41ed0010)
		} else {
			le32(&out, 0x81a40000)
		}
		le32(&out, coff)
		out.WriteString(ml.Name)
		out.Write(cextra.Bytes())
		out.Write(comment)
		ml.CDEntry = append([]byte(nil), out.Bytes()[start:]...)
		lay.Members = append(lay.Members, ml)
	}
	cdSize := int64(out.Len()) - cdOff
	lay.CDSize = cdSize
	lay.EndOffset = int64(out.Len())
	if a.ForceZip64 != 0 {
		end64 := int64(out.Len())
		le32(&out, sigEnd64)
		le64(&out, 44)
		le16(&out, 45)
		le16(&out, 45)
		le32(&out, 0)
		le32(&out, 0)
		le64(&out, uint64(n))
		le64(&out, uint64(n))
		le64(&out, uint64(cdSize))
		le64(&out, uint64(cdOff))
		le32(&out, sigLoc64)
		le32(&out, 0)
		le64(&out, uint64(end64))
		le32(&out, 1)
	}
	le32(&out, sigEOCD)
	le16(&out, 0)
	le16(&out, 0)
	if a.ForceZip64 == 1 {
		le16(&out, 0xffff)
		le16(&out, 0xffff)
		le32(&out, 0xffffffff)
		le32(&out, 0xffffffff)
	} else {
		le16(&out, uint16(n))
		le16(&out, uint16(n))
		le32(&out, uint32(cdSize))
		le32(&out, uint32(cdOff))
	}
	if a.EOCDComment != 0 {
		le16(&out, 10)
		out.WriteString("zipcomment")
	} else {
		le16(&out, 0)
	}
	lay.Size = int64(out.Len())
	return out.Bytes(), lay
}

// AllMembers enumerates the full per-member product, simplest first (ordered by
// the number of non-default features, then lexicographically).
func AllMembers(sizes []int, z64 []int) []Member {
	var all []Member
	for _, method := range []int{Stored, Deflate} {
		for _, size := range sizes {
			for desc := 0; desc < NumDesc; desc++ {
				for _, z := range z64 {
					for extra := 0; extra < NumExtra; extra++ {
						for name := 0; name < NumName; name++ {
							for comment := 0; comment < 2; comment++ {
								all = append(all, Member{method, size, desc, z, extra, name, comment})
							}
						}
					}
				}
			}
		}
	}
	SortSimplestFirst(all)
	return all
}

// Weight is the number of non-default features of a member.
func (m Member) Weight() int {
	d := DefaultMember()
	w := 0
	for _, ne := range []bool{m.Method != d.Method, m.Size != d.Size, m.Desc != d.Desc, m.Zip64 != d.Zip64, m.Extra != d.Extra, m.Name != d.Name, m.Comment != d.Comment} {
		if ne {
			w++
		}
	}
	return w
}

func SortSimplestFirst(ms []Member) {
	// stable insertion by weight keeps the lexicographic generation order inside a weight class
	buckets := map[int][]Member{}
	maxw := 0
	for _, m := range ms {
		w := m.Weight()
		buckets[w] = append(buckets[w], m)
		if w > maxw {
			maxw = w
		}
	}
	k := 0
	for w := 0; w <= maxw; w++ {
		for _, m := range buckets[w] {
			ms[k] = m
			k++
		}
	}
}

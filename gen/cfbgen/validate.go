package cfbgen

import (
	"encoding/binary"
	"fmt"
	"sort"
	"strings"
	"unicode"
	"unicode/utf16"
)

// Entry is one parsed directory entry.
type Entry struct {
	Index  int
	Units  []uint16 // name without terminator
	Name   string
	Type   byte
	Color  byte
	Left   uint32
	Right  uint32
	Child  uint32
	CLSID  [16]byte
	State  uint32
	CTime  uint64
	MTime  uint64
	Start  uint32
	Size   uint64
	Raw    [DirEntrySize]byte
	Path   string // "" for the root entry, "a" / "stg/a" below
	Parent int    // index of the owning storage, -1 for root/unreached
	Data   []byte // stream bytes (nil when the chain could not be read)
}

// Problem is one violated rule. Key is a stable class name.
type Problem struct {
	Key    string `json:"key"`
	Detail string `json:"detail"`
}

// Parsed is the validator's view of a file.
type Parsed struct {
	Version      int
	SectorSize   int
	NumSectors   int
	Fat          []uint32
	MiniFat      []uint32
	FatSectors   []uint32
	DifatSectors []uint32
	DirChain     []uint32
	Entries      []*Entry
	ByPath       map[string]*Entry
	FreeSectors  int
	Problems     []Problem
	// TreeShapes: per storage path, "n=<nodes> h=<height> red=<count>"
	TreeShapes map[string]string

	seen map[string]bool
}

func (p *Parsed) bad(key, format string, a ...any) {
	d := fmt.Sprintf(format, a...)
	if p.seen[key+"\x00"+d] {
		return
	}
	p.seen[key+"\x00"+d] = true
	p.Problems = append(p.Problems, Problem{key, d})
}

// Keys returns the sorted distinct problem keys.
func (p *Parsed) Keys() []string {
	m := map[string]bool{}
	for _, pr := range p.Problems {
		m[pr.Key] = true
	}
	var out []string
	for k := range m {
		out = append(out, k)
	}
	sort.Strings(out)
	return out
}

// upperV: simple (single code unit) upper-casing of one UTF-16 code unit as
// [MS-CFB] 2.6.4 prescribes; surrogates are compared as they are.
func upperV(u uint16) uint16 {
	if u >= 0xD800 && u <= 0xDFFF {
		return u
	}
	r := unicode.ToUpper(rune(u))
	if r > 0xFFFF || r < 0 {
		return u
	}
	return uint16(r)
}

// CompareNames is the [MS-CFB] 2.6.4 ordering: -1, 0, +1.
func CompareNames(a, b []uint16) int {
	if len(a) != len(b) {
		if len(a) < len(b) {
			return -1
		}
		return 1
	}
	for i := range a {
		x, y := upperV(a[i]), upperV(b[i])
		if x != y {
			if x < y {
				return -1
			}
			return 1
		}
	}
	return 0
}

// compareRaw is the same rule WITHOUT case folding (used only to name the
// failure class when the tree is ordered, but case-sensitively).
func compareRaw(a, b []uint16) int {
	if len(a) != len(b) {
		if len(a) < len(b) {
			return -1
		}
		return 1
	}
	for i := range a {
		if a[i] != b[i] {
			if a[i] < b[i] {
				return -1
			}
			return 1
		}
	}
	return 0
}

// Validate parses data and checks every structural rule.
func Validate(data []byte) *Parsed {
	p := &Parsed{ByPath: map[string]*Entry{}, seen: map[string]bool{}, TreeShapes: map[string]string{}}
	le := binary.LittleEndian
	if len(data) < 512 {
		p.bad("file-length", "file is %d bytes, shorter than a header", len(data))
		return p
	}
	h := data[:512]
	if string(h[:8]) != "\xD0\xCF\x11\xE0\xA1\xB1\x1A\xE1" {
		p.bad("header-magic", "signature %x", h[:8])
		return p
	}
	for _, b := range h[8:24] {
		if b != 0 {
			p.bad("header-clsid", "header CLSID not zero")
			break
		}
	}
	major := int(le.Uint16(h[26:]))
	p.Version = major
	if major != 3 && major != 4 {
		p.bad("header-version", "major version %d", major)
		return p
	}
	if le.Uint16(h[28:]) != 0xFFFE {
		p.bad("header-byteorder", "byte order %#x", le.Uint16(h[28:]))
	}
	shift := int(le.Uint16(h[30:]))
	if (major == 3 && shift != 9) || (major == 4 && shift != 12) {
		p.bad("header-shift", "version %d with sector shift %d", major, shift)
		return p
	}
	if le.Uint16(h[32:]) != 6 {
		p.bad("header-shift", "mini sector shift %d", le.Uint16(h[32:]))
		return p
	}
	for _, b := range h[34:40] {
		if b != 0 {
			p.bad("header-reserved", "reserved bytes not zero")
			break
		}
	}
	ss := 1 << shift
	p.SectorSize = ss
	epf := ss / 4
	if le.Uint32(h[56:]) != MiniCutoff {
		p.bad("header-cutoff", "mini stream cutoff %d", le.Uint32(h[56:]))
	}
	if major == 4 {
		if len(data) < ss {
			p.bad("file-length", "version 4 file of %d bytes", len(data))
			return p
		}
		for _, b := range data[512:ss] {
			if b != 0 {
				p.bad("header-v4-padding", "bytes 512..4095 of a version 4 header are not all zero")
				break
			}
		}
	}
	if len(data)%ss != 0 {
		p.bad("file-length", "file length %d is not header + whole %d-byte sectors", len(data), ss)
	}
	n := len(data)/ss - 1
	if n < 0 {
		n = 0
	}
	p.NumSectors = n
	sector := func(s uint32) []byte { return data[(int(s)+1)*ss : (int(s)+2)*ss] }

	hdrDirSecs := le.Uint32(h[40:])
	hdrFat := int(le.Uint32(h[44:]))
	dirStart := le.Uint32(h[48:])
	miniFatStart := le.Uint32(h[60:])
	hdrMiniFat := int(le.Uint32(h[64:]))
	difatStart := le.Uint32(h[68:])
	hdrDifat := int(le.Uint32(h[72:]))

	// owner of every sector
	owner := make([]string, n)
	claim := func(s uint32, who string) bool {
		if owner[s] != "" {
			if owner[s] == who {
				p.bad("chain-cycle", "%s visits sector %d twice", who, s)
			} else {
				p.bad("chain-overlap", "sector %d belongs to both %s and %s", s, owner[s], who)
			}
			return false
		}
		owner[s] = who
		return true
	}

	// ---- DIFAT -------------------------------------------------------------
	var difatEntries []uint32
	for i := 0; i < HeaderDifats; i++ {
		difatEntries = append(difatEntries, le.Uint32(h[76+4*i:]))
	}
	cur := difatStart
	for cur != EndOfChain {
		if cur > MaxRegSect || int(cur) >= n {
			p.bad("difat-chain", "DIFAT chain reaches sector %#x (file has %d sectors)", cur, n)
			break
		}
		if !claim(cur, "DIFAT") {
			break
		}
		p.DifatSectors = append(p.DifatSectors, cur)
		sec := sector(cur)
		for k := 0; k < epf-1; k++ {
			difatEntries = append(difatEntries, le.Uint32(sec[4*k:]))
		}
		cur = le.Uint32(sec[4*(epf-1):])
	}
	if len(p.DifatSectors) != hdrDifat {
		p.bad("header-difat-count", "header says %d DIFAT sectors, chain has %d", hdrDifat, len(p.DifatSectors))
	}
	gap := false
	for i, v := range difatEntries {
		if v == FreeSect {
			gap = true
			continue
		}
		if gap {
			p.bad("difat-gap", "DIFAT entry %d used after a free entry", i)
		}
		if v > MaxRegSect || int(v) >= n {
			p.bad("difat-entry", "DIFAT entry %d names sector %#x (file has %d sectors)", i, v, n)
			continue
		}
		if !claim(v, "FAT") {
			continue
		}
		p.FatSectors = append(p.FatSectors, v)
	}
	if len(p.FatSectors) != hdrFat {
		p.bad("header-fat-count", "header says %d FAT sectors, DIFAT lists %d", hdrFat, len(p.FatSectors))
	}
	// a DIFAT sector is needed exactly when there are more than 109 FAT sectors
	needDifat := 0
	if len(p.FatSectors) > HeaderDifats {
		needDifat = ceilDivV(len(p.FatSectors)-HeaderDifats, epf-1)
	}
	if len(p.DifatSectors) != needDifat {
		p.bad("difat-sector-count", "%d FAT sectors need %d DIFAT sectors, file has %d", len(p.FatSectors), needDifat, len(p.DifatSectors))
	}

	// ---- FAT ---------------------------------------------------------------
	for _, fs := range p.FatSectors {
		sec := sector(fs)
		for k := 0; k < epf; k++ {
			p.Fat = append(p.Fat, le.Uint32(sec[4*k:]))
		}
	}
	fat := p.Fat
	if len(fat) < n {
		p.bad("fat-too-short", "FAT has %d entries for %d sectors", len(fat), n)
	}
	for i := n; i < len(fat); i++ {
		if fat[i] != FreeSect {
			p.bad("fat-entry-beyond-file", "FAT entry %d = %#x but the file has only %d sectors", i, fat[i], n)
		}
	}
	fatAt := func(s uint32) uint32 {
		if int(s) < len(fat) {
			return fat[s]
		}
		return FreeSect
	}
	for _, s := range p.FatSectors {
		if fatAt(s) != FatSect {
			p.bad("fat-sector-not-marked", "FAT sector %d has FAT entry %#x", s, fatAt(s))
		}
	}
	for _, s := range p.DifatSectors {
		if fatAt(s) != DifSect {
			p.bad("difat-sector-not-marked", "DIFAT sector %d has FAT entry %#x", s, fatAt(s))
		}
	}
	for i := 0; i < n && i < len(fat); i++ {
		if fat[i] == FatSect && owner[i] != "FAT" {
			p.bad("fatsect-mark-stray", "sector %d is marked FATSECT but is not in the DIFAT", i)
		}
		if fat[i] == DifSect && owner[i] != "DIFAT" {
			p.bad("difsect-mark-stray", "sector %d is marked DIFSECT but is not in the DIFAT chain", i)
		}
	}

	// walk follows a regular chain and claims its sectors
	walk := func(start uint32, who string) ([]uint32, bool) {
		var out []uint32
		cur := start
		for cur != EndOfChain {
			if cur > MaxRegSect {
				p.bad("chain-hits-special", "%s: chain reaches the special value %#x", who, cur)
				return out, false
			}
			if int(cur) >= n {
				p.bad("chain-out-of-bounds", "%s: chain reaches sector %d, file has %d", who, cur, n)
				return out, false
			}
			if !claim(cur, who) {
				return out, false
			}
			out = append(out, cur)
			cur = fatAt(cur)
		}
		return out, true
	}
	read := func(chain []uint32, size int) []byte {
		buf := make([]byte, 0, len(chain)*ss)
		for _, s := range chain {
			buf = append(buf, sector(s)...)
		}
		if size <= len(buf) {
			return buf[:size]
		}
		return nil
	}

	// ---- directory chain ---------------------------------------------------
	dirChain, _ := walk(dirStart, "directory")
	p.DirChain = dirChain
	if len(dirChain) == 0 {
		p.bad("dir-missing", "no directory sectors")
		return p
	}
	if major == 4 && int(hdrDirSecs) != len(dirChain) {
		p.bad("header-dir-sector-count", "version 4 header says %d directory sectors, chain has %d", hdrDirSecs, len(dirChain))
	}
	if major == 3 && hdrDirSecs != 0 {
		p.bad("header-dir-sector-count", "version 3 header must have 0 directory sectors, has %d", hdrDirSecs)
	}
	dirBytes := read(dirChain, len(dirChain)*ss)
	for i := 0; i*DirEntrySize < len(dirBytes); i++ {
		raw := dirBytes[i*DirEntrySize : (i+1)*DirEntrySize]
		e := &Entry{Index: i, Parent: -1}
		copy(e.Raw[:], raw)
		e.Type = raw[66]
		e.Color = raw[67]
		e.Left = le.Uint32(raw[68:])
		e.Right = le.Uint32(raw[72:])
		e.Child = le.Uint32(raw[76:])
		copy(e.CLSID[:], raw[80:96])
		e.State = le.Uint32(raw[96:])
		e.CTime = le.Uint64(raw[100:])
		e.MTime = le.Uint64(raw[108:])
		e.Start = le.Uint32(raw[116:])
		e.Size = le.Uint64(raw[120:])
		if major == 3 {
			e.Size &= 0xFFFFFFFF
		}
		p.Entries = append(p.Entries, e)
		if e.Type == TypeUnused {
			clean := e.Left == NoStream && e.Right == NoStream && e.Child == NoStream
			for k, b := range raw {
				if (k < 68 || k >= 80) && b != 0 {
					clean = false
				}
			}
			if !clean {
				p.bad("dir-unused-not-clean", "unused entry %d is not zero with NOSTREAM ids", i)
			}
			continue
		}
		if e.Type != TypeStorage && e.Type != TypeStream && e.Type != TypeRoot {
			p.bad("dir-type", "entry %d has object type %d", i, e.Type)
			continue
		}
		if e.Color != ColorRed && e.Color != ColorBlack {
			p.bad("dir-color", "entry %d has colour flag %d", i, e.Color)
		}
		nl := int(le.Uint16(raw[64:]))
		if nl < 4 || nl > 64 || nl%2 != 0 {
			p.bad("dir-name", "entry %d has name length %d", i, nl)
			continue
		}
		units := make([]uint16, nl/2)
		for k := range units {
			units[k] = le.Uint16(raw[2*k:])
		}
		if units[len(units)-1] != 0 {
			p.bad("dir-name", "entry %d: name is not null-terminated", i)
		}
		e.Units = units[:len(units)-1]
		for _, u := range e.Units {
			if u == 0 || u == '/' || u == '\\' || u == ':' || u == '!' {
				p.bad("dir-name", "entry %d: illegal character %#x in name", i, u)
			}
		}
		for k := nl; k < 64; k += 2 {
			if le.Uint16(raw[k:]) != 0 {
				p.bad("dir-name", "entry %d: name field not zero after the terminator", i)
				break
			}
		}
		e.Name = string(utf16.Decode(e.Units))
	}
	if len(p.Entries) == 0 || p.Entries[0].Type != TypeRoot {
		p.bad("dir-root", "entry 0 is not the root storage")
		return p
	}
	for _, e := range p.Entries[1:] {
		if e.Type == TypeRoot {
			p.bad("dir-root", "entry %d is a second root storage", e.Index)
		}
	}
	root := p.Entries[0]
	if root.Left != NoStream || root.Right != NoStream {
		p.bad("dir-root", "root entry has siblings")
	}

	// ---- mini FAT and mini stream ------------------------------------------
	miniFatChain, _ := walk(miniFatStart, "miniFAT")
	if len(miniFatChain) != hdrMiniFat {
		p.bad("header-minifat-count", "header says %d mini FAT sectors, chain has %d", hdrMiniFat, len(miniFatChain))
	}
	for _, s := range miniFatChain {
		sec := sector(s)
		for k := 0; k < epf; k++ {
			p.MiniFat = append(p.MiniFat, le.Uint32(sec[4*k:]))
		}
	}
	var container []byte
	if root.Size > 0 || root.Start != EndOfChain {
		ch, ok := walk(root.Start, "mini stream")
		want := ceilDivV(int(root.Size), ss)
		if ok && len(ch) != want {
			p.bad("ministream-chain-length", "mini stream is %d bytes = %d sectors, chain has %d", root.Size, want, len(ch))
		}
		container = read(ch, len(ch)*ss)
		if int(root.Size) < len(container) {
			container = container[:root.Size]
		}
	}
	if root.Size%MiniSectorSize != 0 {
		p.bad("ministream-size", "mini stream size %d is not a multiple of 64", root.Size)
	}
	miniOwner := make([]string, len(p.MiniFat))

	// ---- trees ---------------------------------------------------------------
	reached := make([]int, len(p.Entries))
	var visitStorage func(st *Entry, path string)
	visitStorage = func(st *Entry, path string) {
		label := "root storage"
		if st.Index != 0 {
			label = fmt.Sprintf("storage %q", path)
		}
		if st.Child == NoStream {
			return
		}
		var inorder []*Entry
		nodes, reds, height := 0, 0, 0
		// returns black height (-1 when broken below)
		var rec func(id uint32, depth int, parentRed bool) int
		rec = func(id uint32, depth int, parentRed bool) int {
			if id == NoStream {
				return 0
			}
			if id > 0xFFFFFFFA || int(id) >= len(p.Entries) {
				p.bad("dir-id-range", "%s: id %#x out of range (%d entries)", label, id, len(p.Entries))
				return -1
			}
			e := p.Entries[id]
			if e.Type == TypeUnused {
				p.bad("dir-points-to-unused", "%s: id %d is an unused entry", label, id)
				return -1
			}
			if e.Type == TypeRoot {
				p.bad("dir-multiply-reachable", "%s: tree reaches the root entry", label)
				return -1
			}
			reached[id]++
			if reached[id] > 1 {
				p.bad("dir-multiply-reachable", "entry %d (%q) is reachable more than once", id, e.Name)
				return -1
			}
			nodes++
			if depth+1 > height {
				height = depth + 1
			}
			red := e.Color == ColorRed
			if red {
				reds++
				if parentRed {
					p.bad("dirtree-not-redblack:red-red", "%s: red entry %q has a red parent", label, e.Name)
				}
			}
			e.Parent = st.Index
			if path == "" {
				e.Path = e.Name
			} else {
				e.Path = path + "/" + e.Name
			}
			lh := rec(e.Left, depth+1, red)
			inorder = append(inorder, e)
			rh := rec(e.Right, depth+1, red)
			if lh < 0 || rh < 0 {
				return -1
			}
			if lh != rh {
				p.bad("dirtree-not-redblack", "%s: black height differs below %q (left %d, right %d)", label, e.Name, lh, rh)
				return -1
			}
			if red {
				return lh
			}
			return lh + 1
		}
		top := st.Child
		if int(top) < len(p.Entries) && p.Entries[top].Type != TypeUnused && p.Entries[top].Color == ColorRed {
			p.bad("dirtree-not-redblack:red-root", "%s: the tree's root node %q is red", label, p.Entries[top].Name)
		}
		rec(top, 0, false)
		p.TreeShapes[path] = fmt.Sprintf("n=%d h=%d red=%d", nodes, height, reds)
		ordered, orderedRaw := true, true
		for i := 1; i < len(inorder); i++ {
			if CompareNames(inorder[i-1].Units, inorder[i].Units) >= 0 {
				ordered = false
				if compareRaw(inorder[i-1].Units, inorder[i].Units) >= 0 {
					orderedRaw = false
				}
			}
		}
		if !ordered {
			var names []string
			for _, e := range inorder {
				names = append(names, fmt.Sprintf("%q", e.Name))
			}
			if orderedRaw {
				p.bad("dirtree-order-case-sensitive", "%s: in-order traversal %s is sorted by raw code units, not by upper-cased code units", label, strings.Join(names, " "))
			} else {
				p.bad("dirtree-order", "%s: in-order traversal %s is not strictly ascending under the MS-CFB comparison", label, strings.Join(names, " "))
			}
		}
		for _, e := range inorder {
			p.ByPath[e.Path] = e
			switch e.Type {
			case TypeStorage:
				visitStorage(e, e.Path)
			case TypeStream:
				if e.Child != NoStream {
					p.bad("dir-stream-has-child", "stream %q has a child id", e.Path)
				}
			}
		}
	}
	visitStorage(root, "")
	for _, e := range p.Entries[1:] {
		if e.Type != TypeUnused && reached[e.Index] == 0 {
			p.bad("dir-unreachable", "entry %d (%q, type %d) is not reachable from the root", e.Index, e.Name, e.Type)
		}
	}

	// ---- streams -------------------------------------------------------------
	for _, e := range p.Entries[1:] {
		if e.Type != TypeStream || reached[e.Index] != 1 {
			continue
		}
		who := fmt.Sprintf("stream %q", e.Path)
		switch {
		case e.Size == 0:
			if e.Start != EndOfChain && e.Start != 0 {
				p.bad("empty-stream-start", "%s is empty but starts at %#x", who, e.Start)
			}
			e.Data = []byte{}
		case e.Size >= MiniCutoff:
			ch, ok := walk(e.Start, who)
			want := ceilDivV(int(e.Size), ss)
			if ok && len(ch) != want {
				p.bad("chain-length", "%s: %d bytes need %d sectors, chain has %d", who, e.Size, want, len(ch))
			}
			e.Data = read(ch, int(e.Size))
		default:
			var ch []uint32
			cur := e.Start
			ok := true
			for cur != EndOfChain {
				if cur > MaxRegSect {
					p.bad("minichain-hits-special", "%s: mini chain reaches %#x", who, cur)
					ok = false
					break
				}
				if int(cur) >= len(p.MiniFat) {
					p.bad("minichain-out-of-bounds", "%s: mini sector %d, mini FAT has %d entries", who, cur, len(p.MiniFat))
					ok = false
					break
				}
				if (int(cur)+1)*MiniSectorSize > len(container) {
					p.bad("ministream-too-short", "%s: mini sector %d lies beyond the %d-byte mini stream", who, cur, len(container))
					ok = false
					break
				}
				if miniOwner[cur] != "" {
					if miniOwner[cur] == who {
						p.bad("minichain-cycle", "%s visits mini sector %d twice", who, cur)
					} else {
						p.bad("minichain-overlap", "mini sector %d belongs to both %s and %s", cur, miniOwner[cur], who)
					}
					ok = false
					break
				}
				miniOwner[cur] = who
				ch = append(ch, cur)
				cur = p.MiniFat[cur]
			}
			want := ceilDivV(int(e.Size), MiniSectorSize)
			if ok && len(ch) != want {
				p.bad("minichain-length", "%s: %d bytes need %d mini sectors, chain has %d", who, e.Size, want, len(ch))
			}
			if ok && len(ch) >= want {
				buf := make([]byte, 0, len(ch)*MiniSectorSize)
				for _, s := range ch {
					buf = append(buf, container[int(s)*MiniSectorSize:(int(s)+1)*MiniSectorSize]...)
				}
				e.Data = buf[:e.Size]
			}
		}
	}

	// ---- every sector accounted for ------------------------------------------
	for i := 0; i < n; i++ {
		v := fatAt(uint32(i))
		if owner[i] == "" {
			if v != FreeSect {
				p.bad("sector-leaked", "sector %d has FAT entry %#x but belongs to no chain, FAT or DIFAT", i, v)
			} else {
				p.FreeSectors++
			}
		}
	}
	for i, v := range p.MiniFat {
		if miniOwner[i] == "" && v != FreeSect {
			p.bad("minisector-leaked", "mini sector %d has mini FAT entry %#x but belongs to no stream", i, v)
		}
	}
	return p
}

func ceilDivV(a, b int) int { return (a + b - 1) / b }

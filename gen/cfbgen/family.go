package cfbgen

import (
	"fmt"
	"unicode/utf16"
)

// Sizes is the stream-size ladder: empty, one byte, either side of a mini
// sector (64), either side of the mini-stream cutoff (4096) which is also the
// version-4 sector size, and a multi-sector stream.
var Sizes = []int{0, 1, 63, 64, 65, 4095, 4096, 4097, 10000}

// MSI-encoded table names (code units 0x3800..0x4840) as msi.dll writes them,
// and the conventional control-character stream.
const (
	NameStringData = "䡀㼿䕷䑬㭪䗤䠤"
	NameStringPool = "䡀㼿䕷䑬㹪䒲䠯"
	NameColumns    = "䡀㬿䏲䐸䖱"
	NameValidation = "䡀㿿䏤䇬䗤䒬䠱"
	NameSummary    = "\x05SummaryInformation"
	NameSig        = "\x05DigitalSignature"
	NameSigEx      = "\x05MsiDigitalSignatureEx"
)

var msiCLSID = [16]byte{0x84, 0x10, 0x0C, 0x00, 0, 0, 0, 0, 0xC0, 0, 0, 0, 0, 0, 0, 0x46}

// positional names of the size family: different lengths, mixed case, one
// MSI-encoded, one with the \x05 prefix.
var posNames = []string{"Data", "alpha", NameStringData, NameSummary}

func base(family string, version int) Spec {
	return Spec{Family: family, Version: version, Free: FreeNone, Mini: MiniNatural, Tree: TreeBalanced,
		RootCLSID: msiCLSID, RootState: 0x11, RootMTime: 0x01D9A0B0C0D0E0F0, FatSlack: -1}
}

func sizedStreams(sizes []int) []Stream {
	var out []Stream
	for i, sz := range sizes {
		out = append(out, Stream{Name: posNames[i], Size: sz, Seed: i + 1})
	}
	return out
}

// FamilySizes: version x every ORDERED tuple of sizes of length 0..maxOrdered
// plus every non-decreasing tuple (multiset) of length maxOrdered+1..maxLen.
func FamilySizes(maxOrdered, maxLen int) []Spec {
	var out []Spec
	for n := 0; n <= maxLen; n++ {
		idx := make([]int, n)
		var rec func(k int)
		rec = func(k int) {
			if k == n {
				for _, v := range []int{3, 4} {
					s := base("sizes", v)
					var sz []int
					for _, i := range idx {
						sz = append(sz, Sizes[i])
					}
					s.Streams = sizedStreams(sz)
					out = append(out, s)
				}
				return
			}
			lo := 0
			if n > maxOrdered && k > 0 {
				lo = idx[k-1]
			}
			for i := lo; i < len(Sizes); i++ {
				idx[k] = i
				rec(k + 1)
			}
		}
		rec(0)
	}
	return out
}

// FamilyLayout: version x placement pattern x mini-stream mode.
func FamilyLayout() []Spec {
	var out []Spec
	for _, v := range []int{3, 4} {
		for _, free := range []string{FreeNone, FreeStart, FreeMiddle, FreeTrailing, Fragmented} {
			for _, mini := range []string{"absent", "present", MiniOneSector} {
				s := base("layout", v)
				s.Free = free
				switch mini {
				case "absent":
					s.Streams = sizedStreams([]int{4096, 10000, 0})
				case "present":
					s.Streams = sizedStreams([]int{65, 4097, 1, 10000})
				case MiniOneSector:
					s.Streams = sizedStreams([]int{65, 4097})
					s.Mini = MiniOneSector
				}
				out = append(out, s)
			}
		}
	}
	return out
}

var cycleSizes = []int{100, 4096, 0, 64, 5000, 1, 63, 65}

// FamilyDirCount: number of used directory entries (root included) at and
// around sector multiples; with/without an unused entry at index 1; with/
// without a whole extra sector of unused entries.
func FamilyDirCount() []Spec {
	var out []Spec
	for _, v := range []int{3, 4} {
		counts := []int{3, 4, 5, 8, 9}
		if v == 4 {
			counts = append(counts, 32, 33)
		}
		for _, c := range counts {
			for _, uf := range []bool{false, true} {
				for _, extra := range []int{0, 1} {
					s := base("dircount", v)
					s.UnusedFirst = uf
					s.ExtraDirSectors = extra
					for i := 0; i < c-1; i++ {
						name := fmt.Sprintf("s%02d", i)
						if i%3 == 1 {
							name = fmt.Sprintf("Stream%02dx", i)
						}
						s.Streams = append(s.Streams, Stream{Name: name, Size: cycleSizes[i%len(cycleSizes)], Seed: i + 1})
					}
					out = append(out, s)
				}
			}
		}
	}
	return out
}

// NameSets are the name alphabets of FamilyNames.
var NameSets = [][]string{
	{"abc", "ABD"}, // case-sensitive and case-insensitive order differ
	{"Zeta", "alph", "BETA", "gamm"},
	{"aaaaaaaaaaaaaaaaa", "ZZZZZZZZZZZZZZZZZ", "\x05digitalsignaturf", "\x05DIGITALSIGNATURD"},                     // 17 units: neighbours of \x05DigitalSignature
	{"aaaaaaaaaaaaaaaaaaaaaa", "ZZZZZZZZZZZZZZZZZZZZZZ", "\x05msidigitalsignatureey", "\x05MSIDIGITALSIGNATUREEW"}, // 22 units: neighbours of \x05MsiDigitalSignatureEx
	{"ThirtyOneCharactersLongName-001", "thirtyonecharacterslongname-000", "THIRTYONECHARACTERSLONGNAME-002"},      // 31 units
	{NameStringData, NameStringPool, NameColumns, NameValidation, NameSummary},
	{"Été", "éta", "Eta"},
	{NameSig, NameSigEx, "Data"},    // already carries both signature streams
	{NameSig, "Data", "abc", "ABD"}, // already carries a non-extended signature
	// one name a proper prefix of a sibling's (the two orders a compound file is
	// read in - directory tree order and byte-wise name order - treat these
	// differently: the tree puts shorter names first, byte-wise comparison puts
	// the prefix first whatever follows)
	{"Binary.setup", "Binary.setup.ico", "Binary"},
	{"ab", "abc", "a", "B"},
	{"Abc", "abcd", "ABCDE", "abd"},
}

// FamilyNames: version x name set x tree construction mode.
func FamilyNames() []Spec {
	var out []Spec
	sizes := []int{70, 4200, 0, 1, 300}
	for _, v := range []int{3, 4} {
		for _, set := range NameSets {
			for _, tree := range []string{TreeBalanced, TreeInserted} {
				s := base("names", v)
				s.Tree = tree
				for i, n := range set {
					sz := sizes[i%len(sizes)]
					if n == NameSig {
						sz = 1500
					}
					if n == NameSigEx {
						sz = 32
					}
					s.Streams = append(s.Streams, Stream{Name: n, Size: sz, Seed: i + 1})
				}
				out = append(out, s)
			}
		}
	}
	return out
}

func storageOf(name string, sizes [2]int) *Storage {
	return &Storage{
		Name:      name,
		CLSID:     [16]byte{0xDE, 0xAD, 0xBE, 0xEF, 1, 2, 3, 4, 5, 6, 7, 8, 9, 10, 11, 12},
		StateBits: 0xA5A5,
		CTime:     0x01D00000DEADBEEF,
		MTime:     0x01D9FFFF12345678,
		Streams: []Stream{
			{Name: "Inner", Size: sizes[0], Seed: 21},
			{Name: "inner2", Size: sizes[1], Seed: 22},
		},
	}
}

// FamilyStorage: version x storage name x root streams x nested stream sizes.
func FamilyStorage() []Spec {
	var out []Spec
	for _, v := range []int{3, 4} {
		for _, name := range []string{"Sub", "䡀Storage.Nested.LongerName"} {
			for _, rootSizes := range [][]int{{}, {65}, {4096, 63}} {
				for _, inner := range [][2]int{{10, 5000}, {0, 4095}} {
					s := base("storage", v)
					s.Streams = sizedStreams(rootSizes)
					s.Storage = storageOf(name, inner)
					out = append(out, s)
				}
			}
		}
	}
	return out
}

// FamilyNestedSigName: a nested storage that itself contains streams named like
// the signature streams (a signed embedded transform looks like this).
func FamilyNestedSigName() []Spec {
	var out []Spec
	for _, v := range []int{3, 4} {
		s := base("nested-signame", v)
		s.Streams = sizedStreams([]int{65, 4097})
		s.Storage = storageOf("Sub", [2]int{10, 5000})
		s.Storage.Streams[0].Name = NameSig
		s.Storage.Streams[0].Size = 700
		out = append(out, s)
	}
	return out
}

// FamilyFatFull: version x FAT slack {0 = exactly full, 1, 2} x mini present/absent.
func FamilyFatFull() []Spec {
	var out []Spec
	for _, v := range []int{3, 4} {
		for _, slack := range []int{0, 1, 2} {
			for _, mini := range []bool{true, false} {
				s := base("fatfull", v)
				if mini {
					s.Streams = sizedStreams([]int{65, 4097})
				} else {
					s.Streams = sizedStreams([]int{4096, 4097})
				}
				s.FatSlack = slack
				s.MinFatSectors = 1
				out = append(out, s)
			}
		}
	}
	return out
}

// FamilyDifat (512-byte sectors only; a version-4 file would need 446 MiB):
// a file that already has a DIFAT sector; a file with exactly 109 full FAT
// sectors (any growth needs the first DIFAT sector); a file whose first DIFAT
// sector is exactly full (109+127 full FAT sectors; growth needs a second).
func FamilyDifat() []Spec {
	var out []Spec
	s := base("difat", 3)
	s.Streams = sizedStreams([]int{65, 7400000})
	out = append(out, s)
	s = base("difat", 3)
	s.Streams = sizedStreams([]int{65, 4097})
	s.FatSlack, s.MinFatSectors = 0, 109
	out = append(out, s)
	s = base("difat", 3)
	s.Streams = sizedStreams([]int{65, 4097})
	s.FatSlack, s.MinFatSectors = 0, 109+127
	out = append(out, s)
	return out
}

// FamilyFatResidue (512-byte sectors): one small stream plus a filler stream
// whose length runs through `window` consecutive sector counts starting at
// `from`. 128 FAT entries fit a sector, so a window of more than 128 makes the
// number of sectors in use - before and after anything a signing adds - pass
// through every residue modulo the FAT sector capacity, including the sizes at
// which the allocation table is exactly full and the table has to grow for its
// own new sector.
func FamilyFatResidue(from, window int) []Spec {
	var out []Spec
	for n := from; n < from+window; n++ {
		s := base("fatresidue", 3)
		s.Streams = sizedStreams([]int{65, n * 512})
		out = append(out, s)
	}
	return out
}

// ---------------------------------------------------------------------------
// Sizes of what travels in the tar stream a compound file is uploaded as: one
// member for the extended-signature metadata, one per stream, one per storage.

// TarBoundaries are the powers of two an implementation would buffer a tar
// member with (a page, io.Copy's 32 KiB, a 64 KiB read buffer, 1 MiB).
var TarBoundaries = []int{4 << 10, 32 << 10, 64 << 10, 1 << 20}

// FamilyMetaSize: the extended-signature metadata (see Spec.ExMetaSize) grows
// with the number of streams and the length of their names. For every boundary
// B: metadata of exactly B-2, B and B+2 bytes (its length is always even) x
// short names (4 code units) / long names (30, some 31: the maximum) x the run
// of streams in the root storage / in a nested storage x version. The run's
// sizes cycle through 0, 1 and 65 bytes; two ordinary streams (one regular, one
// mini) come first.
func FamilyMetaSize(boundaries []int) []Spec {
	var out []Spec
	for _, b := range boundaries {
		for _, delta := range []int{-2, 0, 2} {
			for _, nameLen := range []int{4, 30} {
				for _, inStorage := range []bool{false, true} {
					for _, v := range []int{3, 4} {
						s := base("metasize", v)
						s.Streams = sizedStreams([]int{4097, 65})
						if inStorage {
							s.Storage = storageOf("Sub", [2]int{10, 5000})
						}
						target := b + delta
						per := 24 + 2*nameLen
						rest := target - s.ExMetaSize()
						m := &Many{Count: rest / per, NameLen: nameLen, LongNames: (rest % per) / 2,
							Sizes: []int{0, 1, 65}, InStorage: inStorage, MetaTarget: target}
						s.Many = m
						if rest < 0 || rest%2 != 0 || m.LongNames > m.Count || s.ExMetaSize() != target {
							panic(fmt.Sprintf("cfbgen: metadata size %d not reachable with %d-unit names", target, nameLen))
						}
						out = append(out, s)
					}
				}
			}
		}
	}
	return out
}

// FamilyBigStream: one stream of B-1, B and B+1 bytes for every boundary B
// (between two small streams in digest order) x version.
func FamilyBigStream(boundaries []int) []Spec {
	var out []Spec
	for _, b := range boundaries {
		for _, delta := range []int{-1, 0, 1} {
			for _, v := range []int{3, 4} {
				s := base("bigstream", v)
				s.Streams = sizedStreams([]int{b + delta, 65, 4097})
				out = append(out, s)
			}
		}
	}
	return out
}

// msiNameOfDecodedLen returns a name of at most 31 code units that an MSI-name
// decoder expands to exactly n characters (n <= 186): 0x4840 stands for
// "Table." (6 characters), a unit in 0x3800..0x47FF for two characters, a unit
// in 0x4800..0x483F for one.
func msiNameOfDecodedLen(n, salt int) string {
	for x := 0; x <= 31; x++ {
		r := n - 6*x
		if r < 0 {
			break
		}
		y, z := r/2, r%2
		if x+y+z > 31 || x+y+z == 0 {
			continue
		}
		var u []rune
		for i := 0; i < x; i++ {
			u = append(u, 0x4840)
		}
		for i := 0; i < y; i++ {
			u = append(u, rune(0x3800+((salt*7+i*65+11)&0xFFF)))
		}
		for i := 0; i < z; i++ {
			u = append(u, rune(0x4800+((salt+i+10)&0x3F)))
		}
		return string(u)
	}
	panic(fmt.Sprintf("cfbgen: no MSI-encoded name decodes to %d characters", n))
}

// FamilyTarPath: the path a stream has as a tar member is its storage path plus
// its MSI-decoded name. Lengths either side of the limits of the tar header
// formats: 100 bytes (the name field) as a root stream and as storage/stream;
// 155 bytes of storage path (the ustar prefix field) with a 100-byte name, i.e.
// 255/256/257 in all, beyond which only an extended (PAX) header can carry it.
// x version.
func FamilyTarPath() []Spec {
	var out []Spec
	for _, v := range []int{3, 4} {
		for _, n := range []int{99, 100, 101} {
			s := base("tarpath", v)
			s.Streams = []Stream{{Name: "Data", Size: 65, Seed: 1}, {Name: msiNameOfDecodedLen(n, 1), Size: 300, Seed: 2}}
			out = append(out, s)
		}
		for _, pair := range [][2]int{{40, 58}, {40, 59}, {40, 60}, {154, 100}, {155, 100}, {156, 100}} {
			s := base("tarpath", v)
			s.Streams = []Stream{{Name: "Data", Size: 65, Seed: 1}}
			s.Storage = storageOf(msiNameOfDecodedLen(pair[0], 2), [2]int{300, 5000})
			s.Storage.Streams[0].Name = msiNameOfDecodedLen(pair[1], 3)
			out = append(out, s)
		}
	}
	return out
}

// ---------------------------------------------------------------------------
// Sibling names that differ exactly where the case folding of [MS-CFB] 2.6.4
// decides the order.

// FoldAlphabet is the set of "first differing element" values of the namefold
// families: one representative of every class of UTF-16 code unit that a
// comparison "by length, then by UPPER-cased code units" can treat differently
// from a comparison by raw units, by lower-cased units or by code points:
// a digit; an upper-case and a lower-case ASCII letter (different letters, so
// that they are not the same name); the characters between 'Z' and 'a' that a
// name may contain ('\\' is not allowed in a name, [MS-CFB] 2.6.1); characters
// above 'z'; the Latin-1 analogues - an upper-case and a lower-case letter, the
// caseless signs that lie inside the two letter ranges (U+00D7, U+00F7), the
// caseless letter between them (U+00DF) and the last lower-case letter whose
// upper case is still Latin-1 (U+00FE); a BMP unit above the surrogate range
// (U+FF21, already upper case); and two supplementary characters, i.e.
// surrogate pairs, that differ in the low surrogate only and are each other's
// case pair as CHARACTERS (U+10400 / U+10428) while 2.6.4 compares their units
// unchanged. Every element is one code unit except the two pairs.
var FoldAlphabet = []string{
	"1", "B", "c", "[", "]", "^", "_", "`", "{", "~",
	"Ê", "é", "×", "÷", "ß", "þ",
	"Ａ", "\U00010400", "\U00010428",
}

const foldNameUnits = 6

// foldName: `pre` units of "Name", the element, then 'x' up to six code units.
func foldName(pre int, elem string) string {
	u := encodeName("Name"[:pre] + elem)
	for len(u) < foldNameUnits {
		u = append(u, 'x')
	}
	return string(utf16.Decode(u))
}

// FamilyNameFoldPairs: version x every unordered pair of FoldAlphabet as the
// two streams of the root storage: equal length, first difference (after two
// common units) one element against the other.
func FamilyNameFoldPairs() []Spec {
	var out []Spec
	for _, v := range []int{3, 4} {
		for i := range FoldAlphabet {
			for j := i + 1; j < len(FoldAlphabet); j++ {
				s := base("namefold-pair", v)
				s.Streams = []Stream{
					{Name: foldName(2, FoldAlphabet[i]), Size: 70, Seed: 1},
					{Name: foldName(2, FoldAlphabet[j]), Size: 300, Seed: 2},
				}
				out = append(out, s)
			}
		}
	}
	return out
}

// FamilyNameFold: version x position of the differing element (first unit,
// third unit, the last two units) x tree construction mode, with ALL elements
// of FoldAlphabet as sibling streams of one storage (root).
func FamilyNameFold() []Spec {
	var out []Spec
	sizes := []int{70, 0, 300, 1, 4200}
	for _, v := range []int{3, 4} {
		for _, pre := range []int{0, 2, 4} {
			for _, tree := range []string{TreeBalanced, TreeInserted} {
				s := base("namefold", v)
				s.Tree = tree
				for i, e := range FoldAlphabet {
					s.Streams = append(s.Streams, Stream{Name: foldName(pre, e), Size: sizes[i%len(sizes)], Seed: i + 1})
				}
				out = append(out, s)
			}
		}
	}
	return out
}

// MiniHoles are the numbers of unallocated mini sectors of FamilyMiniFree: one
// (exactly what the 32-byte MsiDigitalSignatureEx stream needs), three (more
// than that, fewer than any signature) and 70 (more than the largest stream the
// mini stream can hold, 4095 bytes = 64 mini sectors, plus one; also more than
// one 4096-byte sector's worth of mini sectors).
var MiniHoles = []int{1, 3, 70}

// FamilyMiniFree: the free-sector dimension of FamilyLayout for the MINI
// stream: version x position of the unallocated mini sectors (before / in the
// middle of / after the used ones) x their number x input unsigned / already
// carrying a small signature with its MsiDigitalSignatureEx (both in the mini
// stream, behind the hole).
func FamilyMiniFree() []Spec {
	var out []Spec
	for _, v := range []int{3, 4} {
		for _, where := range []string{FreeStart, FreeMiddle, FreeTrailing} {
			for _, hole := range MiniHoles {
				for _, signed := range []bool{false, true} {
					s := base("minifree", v)
					s.Streams = sizedStreams([]int{65, 4097, 1, 300})
					if signed {
						s.Streams = append(s.Streams, Stream{Name: NameSig, Size: 1500, Seed: 5}, Stream{Name: NameSigEx, Size: 32, Seed: 6})
					}
					s.MiniFree, s.MiniHole = where, hole
					out = append(out, s)
				}
			}
		}
	}
	return out
}

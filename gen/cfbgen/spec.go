// Package cfbgen is a from-scratch MS-CFB (compound file binary) writer, an
// independent validator/reader and a bounded-exhaustive family of file shapes.
// Everything here is written from the [MS-CFB] specification (v20210817: §2.2
// header, §2.3 FAT, §2.4 mini FAT, §2.5 DIFAT, §2.6 directory, §2.6.4 red-black
// tree). It does not import relic.
//
// writer.go and validate.go deliberately share no helper beyond the constants
// in this file: the writer has its own name comparison and tree builder, the
// validator its own comparison and tree checker, so that each checks the other
// when the harness validates every generated file.
package cfbgen

import "fmt"

const (
	MaxRegSect = 0xFFFFFFFA
	DifSect    = 0xFFFFFFFC
	FatSect    = 0xFFFFFFFD
	EndOfChain = 0xFFFFFFFE
	FreeSect   = 0xFFFFFFFF
	NoStream   = 0xFFFFFFFF

	TypeUnused  = 0
	TypeStorage = 1
	TypeStream  = 2
	TypeRoot    = 5

	ColorRed   = 0
	ColorBlack = 1

	MiniSectorSize = 64
	MiniCutoff     = 4096
	HeaderDifats   = 109
	DirEntrySize   = 128
)

// Stream is one stream object to generate. Its content is a fixed function of
// (Seed, offset) so that any reader can recompute the expected bytes.
type Stream struct {
	Name string
	Size int
	Seed int
}

// Content returns the expected bytes of the stream.
func (s Stream) Content() []byte { return Fill(s.Seed, s.Size) }

// Fill is the deterministic content pattern: no zero bytes in the first 251
// positions, period not a divisor of any sector size.
func Fill(seed, size int) []byte {
	b := make([]byte, size)
	for i := range b {
		b[i] = byte(1 + (i+seed*37)%251)
	}
	return b
}

// Storage is a nested storage object (a child of the root).
type Storage struct {
	Name      string
	CLSID     [16]byte
	StateBits uint32
	CTime     uint64
	MTime     uint64
	Streams   []Stream
}

// Many describes a run of generated streams: a directory too large to be
// written out stream by stream in a Spec. Count streams are added to the root
// storage (or to the nested Storage when InStorage is set). Every name is
// NameLen UTF-16 code units long - a four-digit base-36 counter followed by
// 'x' padding - except LongNames of them (evenly spread over the run), which
// are one unit longer. Stream i has size Sizes[i mod len(Sizes)] and seed i+1.
type Many struct {
	Count     int
	NameLen   int
	LongNames int
	Sizes     []int
	InStorage bool
	// MetaTarget is what the family aimed the length of the extended-signature
	// metadata (see ExMetaSize) at; reporting and self-check only.
	MetaTarget int
}

const base36 = "0123456789abcdefghijklmnopqrstuvwxyz"

func (m Many) isLong(i int) bool {
	if m.LongNames <= 0 {
		return false
	}
	stride := m.Count / m.LongNames
	if stride < 1 {
		stride = 1
	}
	return i%stride == 0 && i/stride < m.LongNames
}

// Streams expands the run.
func (m Many) Streams() []Stream {
	out := make([]Stream, 0, m.Count)
	for i := 0; i < m.Count; i++ {
		n := m.NameLen
		if m.isLong(i) {
			n++
		}
		b := make([]byte, n)
		for k := range b {
			b[k] = 'x'
		}
		v := i
		for k := 3; k >= 0; k-- {
			b[k] = base36[v%36]
			v /= 36
		}
		size := 0
		if len(m.Sizes) > 0 {
			size = m.Sizes[i%len(m.Sizes)]
		}
		out = append(out, Stream{Name: string(b), Size: size, Seed: i + 1})
	}
	return out
}

// Free-sector / placement patterns.
const (
	FreeNone     = "none"
	FreeStart    = "hole-at-start"
	FreeMiddle   = "hole-in-middle"
	FreeTrailing = "trailing-free-sector"
	Fragmented   = "fragmented-descending-chains"
)

// Mini-stream modes.
const (
	MiniNatural   = "natural"    // whatever the stream sizes imply
	MiniOneSector = "one-sector" // a filler stream pads the mini stream to exactly one regular sector
)

// Tree construction modes of the writer.
const (
	TreeBalanced = "balanced"  // midpoint-split tree, deepest incomplete level red
	TreeInserted = "rb-insert" // textbook red-black insertion in declaration order
)

// Spec describes one file completely; Build is a pure function of it.
type Spec struct {
	Family  string // which sub-family produced it (reporting only)
	Version int    // 3 => 512-byte sectors, 4 => 4096-byte sectors
	Streams []Stream
	Storage *Storage
	// RootCLSID/RootState/RootMTime are stored in the root entry.
	RootCLSID [16]byte
	RootState uint32
	RootMTime uint64

	Free string // one of the Free* patterns
	Mini string // MiniNatural or MiniOneSector
	Tree string // TreeBalanced or TreeInserted

	// UnusedFirst places one unused directory entry at index 1 (before the
	// first stream entry) in addition to the padding at the end.
	UnusedFirst bool
	// ExtraDirSectors appends that many whole sectors of unused entries.
	ExtraDirSectors int

	// FatSlack >= 0: a filler stream is added so that the number of FAT entries
	// not backed by a sector of the file is exactly FatSlack (0 = the FAT is
	// exactly full) with at least MinFatSectors FAT sectors.
	FatSlack      int
	MinFatSectors int

	// Many adds a generated run of streams (nil = none).
	Many *Many `json:",omitempty"`

	// MiniFree places MiniHole unallocated (FREESECT) mini sectors inside the
	// mini stream: before the first used one (FreeStart), in the middle of the
	// used ones (FreeMiddle; may fall inside one stream's chain) or after the
	// last used one, still inside the declared mini stream (FreeTrailing).
	// "" = none. The file must have at least one mini-stream-sized stream.
	MiniFree string `json:",omitempty"`
	MiniHole int    `json:",omitempty"`
}

// AllStreams returns every stream of the file by path ("name" in the root
// storage, "storage/name" below), the generated run included; the fillers a
// Mini/FatSlack mode adds are not part of it.
func (s Spec) AllStreams() map[string]Stream {
	out := map[string]Stream{}
	for _, st := range s.Streams {
		out[st.Name] = st
	}
	if s.Storage != nil {
		for _, st := range s.Storage.Streams {
			out[s.Storage.Name+"/"+st.Name] = st
		}
	}
	if s.Many != nil {
		prefix := ""
		if s.Many.InStorage && s.Storage != nil {
			prefix = s.Storage.Name + "/"
		}
		for _, st := range s.Many.Streams() {
			out[prefix+st.Name] = st
		}
	}
	return out
}

// ExMetaSize is the length of the metadata an extended MSI signature
// (MsiDigitalSignatureEx) pre-hashes for this file: per storage its CLSID and
// state bits (root: 20 bytes; a nested storage also its name and both
// timestamps: 36 + name bytes), per stream its name, 32-bit size, state bits
// and both timestamps (24 + name bytes); names without terminator. Signature
// streams of the root storage and fillers are not counted (the families that
// use this have neither).
func (s Spec) ExMetaSize() int {
	n := 20
	units := func(name string) int { return len(encodeName(name)) }
	for _, st := range s.Streams {
		n += 24 + 2*units(st.Name)
	}
	if s.Storage != nil {
		n += 36 + 2*units(s.Storage.Name)
		for _, st := range s.Storage.Streams {
			n += 24 + 2*units(st.Name)
		}
	}
	if s.Many != nil {
		n += s.Many.Count*(24+2*s.Many.NameLen) + 2*s.Many.LongNames
	}
	return n
}

func (s Spec) SectorSize() int {
	if s.Version == 4 {
		return 4096
	}
	return 512
}

// ID is a stable, human-readable identifier of the shape.
func (s Spec) ID() string {
	out := fmt.Sprintf("%s/v%d", s.Family, s.Version)
	for _, st := range s.Streams {
		out += fmt.Sprintf("/%q:%d", st.Name, st.Size)
	}
	if s.Storage != nil {
		out += fmt.Sprintf("/[%q", s.Storage.Name)
		for _, st := range s.Storage.Streams {
			out += fmt.Sprintf(" %q:%d", st.Name, st.Size)
		}
		out += "]"
	}
	if m := s.Many; m != nil {
		where := "root"
		if m.InStorage {
			where = "storage"
		}
		out += fmt.Sprintf("/many=%dx%du+%dlong,sizes=%v,in=%s", m.Count, m.NameLen, m.LongNames, m.Sizes, where)
		if m.MetaTarget > 0 {
			out += fmt.Sprintf(",exmeta=%d", m.MetaTarget)
		}
	}
	out += "/free=" + s.Free + "/mini=" + s.Mini + "/tree=" + s.Tree
	if s.MiniFree != "" {
		out += fmt.Sprintf("/minifree=%s,%d", s.MiniFree, s.MiniHole)
	}
	if s.UnusedFirst {
		out += "/unused-first"
	}
	if s.ExtraDirSectors > 0 {
		out += fmt.Sprintf("/extradir=%d", s.ExtraDirSectors)
	}
	if s.FatSlack >= 0 {
		out += fmt.Sprintf("/fatslack=%d,minfat=%d", s.FatSlack, s.MinFatSectors)
	}
	return out
}

// Info is what Build reports about the file it laid out.
type Info struct {
	SectorSize    int
	Sectors       int // sectors physically in the file
	FatSectors    int
	DifatSectors  int
	MiniFatSecs   int
	MiniSectors   int
	MiniContainer int // regular sectors of the mini stream
	DirSectors    int
	DirEntries    int // including unused ones
	UsedEntries   int
	FatFreeTail   int // FAT entries beyond the end of the file
	FillerSize    int
}

// Package cfbgen is a from-scratch MS-CFB (compound file binary) writer, an
// independent validator/reader and a bounded-exhaustive family of file shapes.
// Everything here is written from the [MS-CFB] specification (v20210817: §2.2
// header, §2.3 FAT, §2.4 mini FAT, §2.5 DIFAT, §2.6 directory, §2.6.4 red-black
// tree). It does not import relic.
//
// writer.go and validate.go deliberately share no helper beyond the constants
// in this file: the writer has its own name comparison and tree builder, the
// validator its own comparison and tree checker, so that each checks the other
// when the harness validates every generated file.
package cfbgen

import "fmt"

const (
	MaxRegSect = 0xFFFFFFFA
	DifSect    = 0xFFFFFFFC
	FatSect    = 0xFFFFFFFD
	EndOfChain = 0xFFFFFFFE
	FreeSect   = 0xFFFFFFFF
	NoStream   = 0xFFFFFFFF

	TypeUnused  = 0
	TypeStorage = 1
	TypeStream  = 2
	TypeRoot    = 5

	ColorRed   = 0
	ColorBlack = 1

	MiniSectorSize = 64
	MiniCutoff     = 4096
	HeaderDifats   = 109
	DirEntrySize   = 128
)

// Stream is one stream object to generate. Its content is a fixed function of
// (Seed, offset) so that any reader can recompute the expected bytes.
type Stream struct {
	Name string
	Size int
	Seed int
}

// Content returns the expected bytes of the stream.
func (s Stream) Content() []byte { return Fill(s.Seed, s.Size) }

// Fill is the deterministic content pattern: no zero bytes in the first 251
// positions, period not a divisor of any sector size.
func Fill(seed, size int) []byte {
	b := make([]byte, size)
	for i := range b {
		b[i] = byte(1 + (i+seed*37)%251)
	}
	return b
}

// Storage is a nested storage object (a child of the root).
type Storage struct {
	Name      string
	CLSID     [16]byte
	StateBits uint32
	CTime     uint64
	MTime     uint64
	Streams   []Stream
}

// Free-sector / placement patterns.
const (
	FreeNone     = "none"
	FreeStart    = "hole-at-start"
	FreeMiddle   = "hole-in-middle"
	FreeTrailing = "trailing-free-sector"
	Fragmented   = "fragmented-descending-chains"
)

// Mini-stream modes.
const (
	MiniNatural   = "natural"    // whatever the stream sizes imply
	MiniOneSector = "one-sector" // a filler stream pads the mini stream to exactly one regular sector
)

// Tree construction modes of the writer.
const (
	TreeBalanced = "balanced"  // midpoint-split tree, deepest incomplete level red
	TreeInserted = "rb-insert" // textbook red-black insertion in declaration order
)

// Spec describes one file completely; Build is a pure function of it.
type Spec struct {
	Family  string // which sub-family produced it (reporting only)
	Version int    // 3 => 512-byte sectors, 4 => 4096-byte sectors
	Streams []Stream
	Storage *Storage
	// RootCLSID/RootState/RootMTime are stored in the root entry.
	RootCLSID [16]byte
	RootState uint32
	RootMTime uint64

	Free string // one of the Free* patterns
	Mini string // MiniNatural or MiniOneSector
	Tree string // TreeBalanced or TreeInserted

	// UnusedFirst places one unused directory entry at index 1 (before the
	// first stream entry) in addition to the padding at the end.
	UnusedFirst bool
	// ExtraDirSectors appends that many whole sectors of unused entries.
	ExtraDirSectors int

	// FatSlack >= 0: a filler stream is added so that the number of FAT entries
	// not backed by a sector of the file is exactly FatSlack (0 = the FAT is
	// exactly full) with at least MinFatSectors FAT sectors.
	FatSlack      int
	MinFatSectors int
}

func (s Spec) SectorSize() int {
	if s.Version == 4 {
		return 4096
	}
	return 512
}

// ID is a stable, human-readable identifier of the shape.
func (s Spec) ID() string {
	out := fmt.Sprintf("%s/v%d", s.Family, s.Version)
	for _, st := range s.Streams {
		out += fmt.Sprintf("/%q:%d", st.Name, st.Size)
	}
	if s.Storage != nil {
		out += fmt.Sprintf("/[%q", s.Storage.Name)
		for _, st := range s.Storage.Streams {
			out += fmt.Sprintf(" %q:%d", st.Name, st.Size)
		}
		out += "]"
	}
	out += "/free=" + s.Free + "/mini=" + s.Mini + "/tree=" + s.Tree
	if s.UnusedFirst {
		out += "/unused-first"
	}
	if s.ExtraDirSectors > 0 {
		out += fmt.Sprintf("/extradir=%d", s.ExtraDirSectors)
	}
	if s.FatSlack >= 0 {
		out += fmt.Sprintf("/fatslack=%d,minfat=%d", s.FatSlack, s.MinFatSectors)
	}
	return out
}

// Info is what Build reports about the file it laid out.
type Info struct {
	SectorSize    int
	Sectors       int // sectors physically in the file
	FatSectors    int
	DifatSectors  int
	MiniFatSecs   int
	MiniSectors   int
	MiniContainer int // regular sectors of the mini stream
	DirSectors    int
	DirEntries    int // including unused ones
	UsedEntries   int
	FatFreeTail   int // FAT entries beyond the end of the file
	FillerSize    int
}

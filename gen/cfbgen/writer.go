package cfbgen

import (
	"encoding/binary"
	"errors"
	"fmt"
	"sort"
	"unicode/utf16"
)

// wnode is a directory entry under construction.
type wnode struct {
	name   []uint16
	typ    byte
	color  byte
	left   uint32
	right  uint32
	child  uint32
	clsid  [16]byte
	state  uint32
	ctime  uint64
	mtime  uint64
	start  uint32
	size   uint64
	index  uint32
	stream *Stream
	kids   []*wnode

	// rb-insert scratch
	p, l, r *wnode
	red     bool
}

func encodeName(s string) []uint16 { return utf16.Encode([]rune(s)) }

// upperW is the writer's own simple upper-casing: ASCII and Latin-1 letters.
// (The family only uses names whose case pairs lie in these ranges, plus
// caseless CJK-range units for MSI-encoded names.)
func upperW(u uint16) uint16 {
	switch {
	case u >= 'a' && u <= 'z':
		return u - 32
	case u >= 0xE0 && u <= 0xFE && u != 0xF7:
		return u - 32
	}
	return u
}

// lessW: [MS-CFB] 2.6.4 — shorter name is less; equal lengths compare
// upper-cased UTF-16 code units.
func lessW(a, b []uint16) bool {
	if len(a) != len(b) {
		return len(a) < len(b)
	}
	for i := range a {
		x, y := upperW(a[i]), upperW(b[i])
		if x != y {
			return x < y
		}
	}
	return false
}

// buildTree links kids into a red-black tree and returns its root id.
func buildTree(kids []*wnode, mode string) (uint32, error) {
	if len(kids) == 0 {
		return NoStream, nil
	}
	if len(kids) <= 64 {
		for i := range kids {
			for j := i + 1; j < len(kids); j++ {
				if !lessW(kids[i].name, kids[j].name) && !lessW(kids[j].name, kids[i].name) {
					return 0, fmt.Errorf("duplicate name in one storage: %q", string(utf16.Decode(kids[i].name)))
				}
			}
		}
	} else {
		// the same check for a large storage: equal names are neighbours once sorted
		chk := append([]*wnode(nil), kids...)
		sort.SliceStable(chk, func(i, j int) bool { return lessW(chk[i].name, chk[j].name) })
		for i := 1; i < len(chk); i++ {
			if !lessW(chk[i-1].name, chk[i].name) {
				return 0, fmt.Errorf("duplicate name in one storage: %q", string(utf16.Decode(chk[i].name)))
			}
		}
	}
	switch mode {
	case TreeInserted:
		var root *wnode
		for _, k := range kids {
			k.p, k.l, k.r, k.red = nil, nil, nil, true
			root = rbInsert(root, k)
		}
		for _, k := range kids {
			k.left, k.right = NoStream, NoStream
			if k.l != nil {
				k.left = k.l.index
			}
			if k.r != nil {
				k.right = k.r.index
			}
			k.color = ColorBlack
			if k.red {
				k.color = ColorRed
			}
		}
		return root.index, nil
	default:
		sorted := append([]*wnode(nil), kids...)
		sort.Slice(sorted, func(i, j int) bool { return lessW(sorted[i].name, sorted[j].name) })
		n := len(sorted)
		height := 0
		for (1<<(height+1))-1 < n {
			height++
		}
		perfect := (1<<(height+1))-1 == n
		var rec func(lo, hi, depth int) uint32
		rec = func(lo, hi, depth int) uint32 {
			if lo >= hi {
				return NoStream
			}
			mid := lo + (hi-lo)/2
			nd := sorted[mid]
			nd.color = ColorBlack
			if depth == height && !perfect {
				nd.color = ColorRed
			}
			nd.left = rec(lo, mid, depth+1)
			nd.right = rec(mid+1, hi, depth+1)
			return nd.index
		}
		return rec(0, n, 0), nil
	}
}

// rbInsert is the textbook (CLRS 13.3) insertion with parent pointers.
func rbInsert(root, z *wnode) *wnode {
	var y *wnode
	x := root
	for x != nil {
		y = x
		if lessW(z.name, x.name) {
			x = x.l
		} else {
			x = x.r
		}
	}
	z.p = y
	if y == nil {
		root = z
	} else if lessW(z.name, y.name) {
		y.l = z
	} else {
		y.r = z
	}
	rotL := func(x *wnode) {
		y := x.r
		x.r = y.l
		if y.l != nil {
			y.l.p = x
		}
		y.p = x.p
		if x.p == nil {
			root = y
		} else if x == x.p.l {
			x.p.l = y
		} else {
			x.p.r = y
		}
		y.l = x
		x.p = y
	}
	rotR := func(x *wnode) {
		y := x.l
		x.l = y.r
		if y.r != nil {
			y.r.p = x
		}
		y.p = x.p
		if x.p == nil {
			root = y
		} else if x == x.p.r {
			x.p.r = y
		} else {
			x.p.l = y
		}
		y.r = x
		x.p = y
	}
	for z.p != nil && z.p.red {
		g := z.p.p
		if z.p == g.l {
			u := g.r
			if u != nil && u.red {
				z.p.red, u.red, g.red = false, false, true
				z = g
			} else {
				if z == z.p.r {
					z = z.p
					rotL(z)
				}
				z.p.red = false
				z.p.p.red = true
				rotR(z.p.p)
			}
		} else {
			u := g.l
			if u != nil && u.red {
				z.p.red, u.red, g.red = false, false, true
				z = g
			} else {
				if z == z.p.l {
					z = z.p
					rotR(z)
				}
				z.p.red = false
				z.p.p.red = true
				rotL(z.p.p)
			}
		}
	}
	root.red = false
	return root
}

// spread assigns positions 0..sum-1 to chains; fragmented interleaves the
// chains round-robin and makes every chain run through descending positions.
func spread(lens []int, fragmented bool) [][]int {
	out := make([][]int, len(lens))
	pos := 0
	if !fragmented {
		for i, n := range lens {
			for k := 0; k < n; k++ {
				out[i] = append(out[i], pos)
				pos++
			}
		}
		return out
	}
	for round := 0; ; round++ {
		any := false
		for i, n := range lens {
			if round < n {
				out[i] = append(out[i], pos)
				pos++
				any = true
			}
		}
		if !any {
			break
		}
	}
	for i := range out {
		for a, b := 0, len(out[i])-1; a < b; a, b = a+1, b-1 {
			out[i][a], out[i][b] = out[i][b], out[i][a]
		}
	}
	return out
}

func ceilDiv(a, b int) int { return (a + b - 1) / b }

// Build lays the file out and returns its bytes.
func Build(spec Spec) ([]byte, Info, error) {
	var info Info
	ss := spec.SectorSize()
	epf := ss / 4
	info.SectorSize = ss
	if spec.Version != 3 && spec.Version != 4 {
		return nil, info, errors.New("version must be 3 or 4")
	}

	// ---- fixed-point on the FAT filler ----------------------------------
	fillerSectors := 0
	if spec.FatSlack >= 0 {
		fillerSectors = ceilDiv(MiniCutoff, ss)
	}
	for iter := 0; ; iter++ {
		data, inf, slack, err := buildOnce(spec, fillerSectors)
		if err != nil {
			return nil, inf, err
		}
		if spec.FatSlack < 0 {
			return data, inf, nil
		}
		if slack == spec.FatSlack && inf.FatSectors >= spec.MinFatSectors {
			return data, inf, nil
		}
		if iter > 40000 {
			return nil, inf, errors.New("no filler size reaches the requested FAT slack")
		}
		// jump close to the target when far away
		step := 1
		if inf.FatSectors < spec.MinFatSectors {
			if d := (spec.MinFatSectors-inf.FatSectors-1)*epf - 2; d > 1 {
				step = d
			}
		} else if slack > spec.FatSlack+2 {
			step = slack - spec.FatSlack - 1
		}
		fillerSectors += step
	}
}

func buildOnce(spec Spec, fillerSectors int) ([]byte, Info, int, error) {
	var info Info
	ss := spec.SectorSize()
	epf := ss / 4
	info.SectorSize = ss
	frag := spec.Free == Fragmented

	// ---- directory entries ------------------------------------------------
	root := &wnode{name: encodeName("Root Entry"), typ: TypeRoot, color: ColorBlack,
		left: NoStream, right: NoStream, child: NoStream,
		clsid: spec.RootCLSID, state: spec.RootState, mtime: spec.RootMTime}
	mkStream := func(s Stream) (*wnode, error) {
		n := encodeName(s.Name)
		if len(n) < 1 || len(n) > 31 {
			return nil, fmt.Errorf("name length %d out of range", len(n))
		}
		sc := s
		return &wnode{name: n, typ: TypeStream, left: NoStream, right: NoStream, child: NoStream,
			start: EndOfChain, size: uint64(s.Size), stream: &sc}, nil
	}
	var streams []*wnode // every stream entry, directory order
	var entries []*wnode // directory order after the root
	for _, s := range spec.Streams {
		n, err := mkStream(s)
		if err != nil {
			return nil, info, 0, err
		}
		root.kids = append(root.kids, n)
		entries = append(entries, n)
		streams = append(streams, n)
	}
	if spec.Storage != nil {
		st := spec.Storage
		sn := &wnode{name: encodeName(st.Name), typ: TypeStorage, left: NoStream, right: NoStream, child: NoStream,
			clsid: st.CLSID, state: st.StateBits, ctime: st.CTime, mtime: st.MTime}
		if len(sn.name) < 1 || len(sn.name) > 31 {
			return nil, info, 0, errors.New("storage name length out of range")
		}
		root.kids = append(root.kids, sn)
		entries = append(entries, sn)
		for _, s := range st.Streams {
			n, err := mkStream(s)
			if err != nil {
				return nil, info, 0, err
			}
			sn.kids = append(sn.kids, n)
			entries = append(entries, n)
			streams = append(streams, n)
		}
	}
	if m := spec.Many; m != nil {
		if m.NameLen < 4 || m.NameLen > 31 || (m.LongNames > 0 && m.NameLen > 30) || m.LongNames > m.Count || m.Count >= 36*36*36*36 {
			return nil, info, 0, errors.New("generated run of streams: name length or count out of range")
		}
		parent := root
		if m.InStorage {
			parent = nil
			for _, k := range root.kids {
				if k.typ == TypeStorage {
					parent = k
				}
			}
			if parent == nil {
				return nil, info, 0, errors.New("generated run of streams: no storage to put it in")
			}
		}
		for _, s := range m.Streams() {
			n, err := mkStream(s)
			if err != nil {
				return nil, info, 0, err
			}
			parent.kids = append(parent.kids, n)
			entries = append(entries, n)
			streams = append(streams, n)
		}
	}
	// mini filler
	miniUsed := 0
	for _, n := range streams {
		if n.size > 0 && n.size < MiniCutoff {
			miniUsed += ceilDiv(int(n.size), MiniSectorSize)
		}
	}
	if spec.Mini == MiniOneSector {
		per := ss / MiniSectorSize
		if miniUsed > per {
			return nil, info, 0, fmt.Errorf("mini stream already needs %d mini sectors, more than one sector (%d)", miniUsed, per)
		}
		if miniUsed < per {
			n, _ := mkStream(Stream{Name: "MiniFill", Size: (per - miniUsed) * MiniSectorSize, Seed: 90})
			root.kids = append(root.kids, n)
			entries = append(entries, n)
			streams = append(streams, n)
		}
	}
	if spec.FatSlack >= 0 {
		n, _ := mkStream(Stream{Name: "FatFill", Size: fillerSectors * ss, Seed: 91})
		root.kids = append(root.kids, n)
		entries = append(entries, n)
		streams = append(streams, n)
		info.FillerSize = fillerSectors * ss
	}
	// indices
	perDir := ss / DirEntrySize
	var slots []*wnode // nil = unused
	slots = append(slots, root)
	if spec.UnusedFirst {
		slots = append(slots, nil)
	}
	slots = append(slots, entries...)
	info.UsedEntries = 1 + len(entries)
	for len(slots)%perDir != 0 {
		slots = append(slots, nil)
	}
	for i := 0; i < spec.ExtraDirSectors*perDir; i++ {
		slots = append(slots, nil)
	}
	for i, n := range slots {
		if n != nil {
			n.index = uint32(i)
		}
	}
	info.DirEntries = len(slots)
	info.DirSectors = len(slots) / perDir
	// trees
	var err error
	if root.child, err = buildTree(root.kids, spec.Tree); err != nil {
		return nil, info, 0, err
	}
	for _, k := range root.kids {
		if k.typ == TypeStorage {
			if k.child, err = buildTree(k.kids, spec.Tree); err != nil {
				return nil, info, 0, err
			}
		}
	}

	// ---- mini stream ------------------------------------------------------
	var miniOwners []*wnode
	var miniLens []int
	for _, n := range streams {
		if n.size > 0 && n.size < MiniCutoff {
			miniOwners = append(miniOwners, n)
			miniLens = append(miniLens, ceilDiv(int(n.size), MiniSectorSize))
		}
	}
	miniPos := spread(miniLens, frag)
	nMini := 0
	for _, l := range miniLens {
		nMini += l
	}
	// unallocated mini sectors inside the mini stream (Spec.MiniFree)
	if spec.MiniFree != "" {
		if nMini == 0 || spec.MiniHole < 1 || spec.Mini != MiniNatural {
			return nil, info, 0, errors.New("free mini sectors need a natural mini stream with at least one used mini sector and a hole of at least one")
		}
		before, midAt, mid, after := 0, nMini/2, 0, 0
		switch spec.MiniFree {
		case FreeStart:
			before = spec.MiniHole
		case FreeMiddle:
			mid = spec.MiniHole
		case FreeTrailing:
			after = spec.MiniHole
		default:
			return nil, info, 0, fmt.Errorf("unknown free mini sector pattern %q", spec.MiniFree)
		}
		for _, ch := range miniPos {
			for k, q := range ch {
				if q >= midAt {
					q += mid
				}
				ch[k] = before + q
			}
		}
		nMini += before + mid + after
	}
	info.MiniSectors = nMini
	miniFat := make([]uint32, ceilDiv(nMini, epf)*epf)
	for i := range miniFat {
		miniFat[i] = FreeSect
	}
	container := make([]byte, ceilDiv(nMini*MiniSectorSize, ss)*ss)
	for i, n := range miniOwners {
		content := n.stream.Content()
		ch := miniPos[i]
		n.start = uint32(ch[0])
		for k, p := range ch {
			if k+1 < len(ch) {
				miniFat[p] = uint32(ch[k+1])
			} else {
				miniFat[p] = EndOfChain
			}
			lo := k * MiniSectorSize
			hi := lo + MiniSectorSize
			if hi > len(content) {
				hi = len(content)
			}
			copy(container[p*MiniSectorSize:], content[lo:hi])
		}
	}
	info.MiniFatSecs = len(miniFat) / epf
	info.MiniContainer = len(container) / ss

	// ---- regular chains ---------------------------------------------------
	type chain struct {
		what    string
		content []byte // multiple of ss after padding
		owner   *wnode
	}
	dirBytes := make([]byte, len(slots)*DirEntrySize)
	var chains []*chain
	chains = append(chains, &chain{what: "dir", content: dirBytes})
	if len(miniFat) > 0 {
		mf := make([]byte, len(miniFat)*4)
		for i, v := range miniFat {
			binary.LittleEndian.PutUint32(mf[i*4:], v)
		}
		chains = append(chains, &chain{what: "minifat", content: mf})
		chains = append(chains, &chain{what: "ministream", content: container})
	}
	for _, n := range streams {
		if n.size >= MiniCutoff {
			c := n.stream.Content()
			pad := make([]byte, ceilDiv(len(c), ss)*ss)
			copy(pad, c)
			chains = append(chains, &chain{what: "stream", content: pad, owner: n})
		}
	}
	lens := make([]int, len(chains))
	total := 0
	for i, c := range chains {
		lens[i] = len(c.content) / ss
		total += lens[i]
	}
	pos := spread(lens, frag)

	holeStart, holeMid, trailing := 0, 0, 0
	switch spec.Free {
	case FreeStart:
		holeStart = 1
	case FreeMiddle:
		holeMid = 2
	case FreeTrailing:
		trailing = 1
	}
	midAt := total / 2
	nFat, nDifat := 1, 0
	for {
		n := holeStart + nFat + nDifat + total + holeMid + trailing
		needFat := ceilDiv(n, epf)
		needDifat := 0
		if needFat > HeaderDifats {
			needDifat = ceilDiv(needFat-HeaderDifats, epf-1)
		}
		if needFat == nFat && needDifat == nDifat {
			break
		}
		nFat, nDifat = needFat, needDifat
	}
	nSect := holeStart + nFat + nDifat + total + holeMid + trailing
	info.Sectors, info.FatSectors, info.DifatSectors = nSect, nFat, nDifat
	info.FatFreeTail = nFat*epf - nSect
	fatBase := holeStart
	difatBase := fatBase + nFat
	dataBase := difatBase + nDifat
	sectorOf := func(p int) uint32 {
		if p >= midAt {
			p += holeMid
		}
		return uint32(dataBase + p)
	}

	img := make([]byte, (1+nSect)*ss)
	fat := make([]uint32, nFat*epf)
	for i := range fat {
		fat[i] = FreeSect
	}
	for i := 0; i < nFat; i++ {
		fat[fatBase+i] = FatSect
	}
	for i := 0; i < nDifat; i++ {
		fat[difatBase+i] = DifSect
	}
	put := func(sector uint32, b []byte) { copy(img[(1+int(sector))*ss:], b) }
	var dirStart, miniFatStart uint32 = EndOfChain, EndOfChain
	for i, c := range chains {
		ch := pos[i]
		for k, p := range ch {
			s := sectorOf(p)
			if k+1 < len(ch) {
				fat[s] = sectorOf(ch[k+1])
			} else {
				fat[s] = EndOfChain
			}
			if c.what != "dir" {
				put(s, c.content[k*ss:(k+1)*ss])
			}
		}
		first := sectorOf(ch[0])
		switch c.what {
		case "dir":
			dirStart = first
		case "minifat":
			miniFatStart = first
		case "ministream":
			root.start = first
			root.size = uint64(nMini * MiniSectorSize)
		case "stream":
			c.owner.start = first
		}
	}
	if nMini == 0 {
		root.start = EndOfChain
		root.size = 0
	}
	// directory bytes now that starts are known
	for i, n := range slots {
		e := dirBytes[i*DirEntrySize : (i+1)*DirEntrySize]
		if n == nil {
			binary.LittleEndian.PutUint32(e[68:], NoStream)
			binary.LittleEndian.PutUint32(e[72:], NoStream)
			binary.LittleEndian.PutUint32(e[76:], NoStream)
			continue
		}
		for k, u := range n.name {
			binary.LittleEndian.PutUint16(e[2*k:], u)
		}
		binary.LittleEndian.PutUint16(e[64:], uint16(2*(len(n.name)+1)))
		e[66] = n.typ
		e[67] = n.color
		binary.LittleEndian.PutUint32(e[68:], n.left)
		binary.LittleEndian.PutUint32(e[72:], n.right)
		binary.LittleEndian.PutUint32(e[76:], n.child)
		copy(e[80:96], n.clsid[:])
		binary.LittleEndian.PutUint32(e[96:], n.state)
		binary.LittleEndian.PutUint64(e[100:], n.ctime)
		binary.LittleEndian.PutUint64(e[108:], n.mtime)
		binary.LittleEndian.PutUint32(e[116:], n.start)
		binary.LittleEndian.PutUint64(e[120:], n.size)
	}
	for k, p := range pos[0] {
		put(sectorOf(p), dirBytes[k*ss:(k+1)*ss])
	}
	// FAT sectors
	fb := make([]byte, len(fat)*4)
	for i, v := range fat {
		binary.LittleEndian.PutUint32(fb[i*4:], v)
	}
	for i := 0; i < nFat; i++ {
		put(uint32(fatBase+i), fb[i*ss:(i+1)*ss])
	}
	// DIFAT sectors
	for i := 0; i < nDifat; i++ {
		sec := make([]byte, ss)
		for k := 0; k < epf-1; k++ {
			idx := HeaderDifats + i*(epf-1) + k
			v := uint32(FreeSect)
			if idx < nFat {
				v = uint32(fatBase + idx)
			}
			binary.LittleEndian.PutUint32(sec[k*4:], v)
		}
		next := uint32(EndOfChain)
		if i+1 < nDifat {
			next = uint32(difatBase + i + 1)
		}
		binary.LittleEndian.PutUint32(sec[(epf-1)*4:], next)
		put(uint32(difatBase+i), sec)
	}
	// header
	h := img[:512]
	copy(h, []byte{0xD0, 0xCF, 0x11, 0xE0, 0xA1, 0xB1, 0x1A, 0xE1})
	binary.LittleEndian.PutUint16(h[24:], 0x003E)
	binary.LittleEndian.PutUint16(h[26:], uint16(spec.Version))
	binary.LittleEndian.PutUint16(h[28:], 0xFFFE)
	shift := uint16(9)
	if spec.Version == 4 {
		shift = 12
	}
	binary.LittleEndian.PutUint16(h[30:], shift)
	binary.LittleEndian.PutUint16(h[32:], 6)
	if spec.Version == 4 {
		binary.LittleEndian.PutUint32(h[40:], uint32(info.DirSectors))
	}
	binary.LittleEndian.PutUint32(h[44:], uint32(nFat))
	binary.LittleEndian.PutUint32(h[48:], dirStart)
	binary.LittleEndian.PutUint32(h[52:], 0)
	binary.LittleEndian.PutUint32(h[56:], MiniCutoff)
	binary.LittleEndian.PutUint32(h[60:], miniFatStart)
	binary.LittleEndian.PutUint32(h[64:], uint32(info.MiniFatSecs))
	if nDifat > 0 {
		binary.LittleEndian.PutUint32(h[68:], uint32(difatBase))
	} else {
		binary.LittleEndian.PutUint32(h[68:], EndOfChain)
	}
	binary.LittleEndian.PutUint32(h[72:], uint32(nDifat))
	for i := 0; i < HeaderDifats; i++ {
		v := uint32(FreeSect)
		if i < nFat {
			v = uint32(fatBase + i)
		}
		binary.LittleEndian.PutUint32(h[76+4*i:], v)
	}
	return img, info, info.FatFreeTail, nil
}

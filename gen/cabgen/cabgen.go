// Package cabgen is a bounded-exhaustive generator of Microsoft cabinet files
// written from [MS-CAB] (CFHEADER, optional reserve fields, CFFOLDER, CFFILE,
// CFDATA with the documented checksum; compression type 0 = none). It does not
// import relic. An independent reader (Parse) re-checks every file.
package cabgen

import (
	"bytes"
	"encoding/binary"
	"fmt"
	"strings"

	"verif/gen/shape"
)

// Spec describes one cabinet.
type Spec struct {
	// Folders[i] lists the sizes of the files stored in folder i.
	Folders [][]int
	// Reserve >= 0: the header carries the optional reserve fields with
	// cbCFHeader = Reserve zero bytes (what "ReservePerCabinetSize" produces);
	// -1: no reserve fields (flag 0x0004 clear).
	Reserve int
	// FolderReserve / DataReserve: cbCFFolder / cbCFData (non-zero filler bytes).
	FolderReserve, DataReserve int
	SetID                      uint16
	LongName                   bool // 200-character member names
	ZeroChecksums              bool // CFDATA.csum = 0 ("no checksum", allowed by the format)
}

func (s Spec) Name() string {
	var fs []string
	for _, f := range s.Folders {
		var ss []string
		for _, x := range f {
			ss = append(ss, fmt.Sprint(x))
		}
		fs = append(fs, "["+strings.Join(ss, ",")+"]")
	}
	n := "cab/folders=" + strings.Join(fs, "")
	if s.Reserve >= 0 {
		n += fmt.Sprintf("/reserve=%d", s.Reserve)
	}
	if s.FolderReserve > 0 || s.DataReserve > 0 {
		n += fmt.Sprintf("/folderreserve=%d/datareserve=%d", s.FolderReserve, s.DataReserve)
	}
	if s.LongName {
		n += "/longnames"
	}
	if s.ZeroChecksums {
		n += "/csum=0"
	}
	return n
}

func content(seed, n int) []byte {
	b := make([]byte, n)
	for i := range b {
		b[i] = byte(1 + (i*13+seed*17+(i>>7))%253)
	}
	return b
}

// csum is the CFDATA checksum of [MS-CAB] 3.1 ("Checksum Method"): XOR of
// little-endian 32-bit words, the 1..3 trailing bytes packed big-end first.
func csum(data []byte, seed uint32) uint32 {
	c := seed
	n := len(data) / 4
	for i := 0; i < n; i++ {
		c ^= binary.LittleEndian.Uint32(data[i*4:])
	}
	rest := data[n*4:]
	var ul uint32
	switch len(rest) {
	case 3:
		ul |= uint32(rest[0])<<16 | uint32(rest[1])<<8 | uint32(rest[2])
	case 2:
		ul |= uint32(rest[0])<<8 | uint32(rest[1])
	case 1:
		ul |= uint32(rest[0])
	}
	return c ^ ul
}

const blockMax = 32768

// Build writes the cabinet.
func Build(s Spec) []byte {
	le := binary.LittleEndian
	nfiles := 0
	for _, f := range s.Folders {
		nfiles += len(f)
	}
	hdrLen := 36
	flags := uint16(0)
	if s.Reserve >= 0 || s.FolderReserve > 0 || s.DataReserve > 0 {
		flags |= 4
		r := s.Reserve
		if r < 0 {
			r = 0
		}
		hdrLen += 4 + r
	}
	folderLen := 8 + s.FolderReserve
	// CFFILE entries
	var files bytes.Buffer
	fileNo := 0
	type fold struct {
		data   []byte
		blocks int
	}
	folds := make([]fold, len(s.Folders))
	for fi, f := range s.Folders {
		off := 0
		for _, sz := range f {
			var e [16]byte
			le.PutUint32(e[0:], uint32(sz))
			le.PutUint32(e[4:], uint32(off))
			le.PutUint16(e[8:], uint16(fi))
			le.PutUint16(e[10:], 0x5221) // 2021-01-01
			le.PutUint16(e[12:], 0x6000) // 12:00:00
			le.PutUint16(e[14:], 0x20)   // archive
			files.Write(e[:])
			name := fmt.Sprintf("file%d.bin", fileNo)
			if s.LongName {
				name = strings.Repeat("n", 190) + name
			}
			files.WriteString(name)
			files.WriteByte(0)
			folds[fi].data = append(folds[fi].data, content(fileNo+1, sz)...)
			off += sz
			fileNo++
		}
		folds[fi].blocks = (len(folds[fi].data) + blockMax - 1) / blockMax
	}
	coffFiles := hdrLen + folderLen*len(s.Folders)
	dataStart := coffFiles + files.Len()
	// CFDATA
	var data bytes.Buffer
	folderOff := make([]int, len(s.Folders))
	for fi := range folds {
		folderOff[fi] = dataStart + data.Len()
		d := folds[fi].data
		for len(d) > 0 {
			n := len(d)
			if n > blockMax {
				n = blockMax
			}
			var h [8]byte
			le.PutUint16(h[4:], uint16(n))
			le.PutUint16(h[6:], uint16(n))
			res := bytes.Repeat([]byte{0xEE}, s.DataReserve)
			if !s.ZeroChecksums {
				// checksum covers cbData, cbUncomp, abReserve and the payload
				c := csum(d[:n], 0)
				tail := append(append([]byte{}, h[4:8]...), res...)
				c = csum(tail, c)
				le.PutUint32(h[0:], c)
			}
			data.Write(h[:])
			data.Write(res)
			data.Write(d[:n])
			d = d[n:]
		}
	}
	total := dataStart + data.Len()
	var b bytes.Buffer
	hdr := make([]byte, 36)
	copy(hdr, "MSCF")
	le.PutUint32(hdr[8:], uint32(total))
	le.PutUint32(hdr[16:], uint32(coffFiles))
	hdr[24] = 3
	hdr[25] = 1
	le.PutUint16(hdr[26:], uint16(len(s.Folders)))
	le.PutUint16(hdr[28:], uint16(nfiles))
	le.PutUint16(hdr[30:], flags)
	le.PutUint16(hdr[32:], s.SetID)
	le.PutUint16(hdr[34:], 0)
	b.Write(hdr)
	if flags&4 != 0 {
		r := s.Reserve
		if r < 0 {
			r = 0
		}
		var rh [4]byte
		le.PutUint16(rh[0:], uint16(r))
		rh[2] = byte(s.FolderReserve)
		rh[3] = byte(s.DataReserve)
		b.Write(rh[:])
		b.Write(make([]byte, r))
	}
	for fi := range folds {
		var fh [8]byte
		le.PutUint32(fh[0:], uint32(folderOff[fi]))
		le.PutUint16(fh[4:], uint16(folds[fi].blocks))
		le.PutUint16(fh[6:], 0)
		b.Write(fh[:])
		b.Write(bytes.Repeat([]byte{0xDD}, s.FolderReserve))
	}
	b.Write(files.Bytes())
	b.Write(data.Bytes())
	if b.Len() != total {
		panic("cabgen: size mismatch")
	}
	return b.Bytes()
}

// Parsed is what the independent reader extracts.
type Parsed struct {
	TotalSize  int
	Flags      uint16
	HeaderRes  int
	Files      []ParsedFile
	FolderData [][]byte
	SigOffset  int // reserve-area signature pointer (offset, size) if the reserve is 20 bytes
	SigSize    int
}

type ParsedFile struct {
	Name   string
	Size   int
	Offset int
	Folder int
}

// Parse reads a cabinet (uncompressed folders only) and checks every offset,
// count and CFDATA checksum. Bytes after cbCabinet are ignored (a signature
// lives there).
func Parse(b []byte) (*Parsed, error) {
	le := binary.LittleEndian
	if len(b) < 36 || string(b[:4]) != "MSCF" {
		return nil, fmt.Errorf("no MSCF header")
	}
	p := &Parsed{}
	p.TotalSize = int(le.Uint32(b[8:]))
	coffFiles := int(le.Uint32(b[16:]))
	nFolders := int(le.Uint16(b[26:]))
	nFiles := int(le.Uint16(b[28:]))
	p.Flags = le.Uint16(b[30:])
	if b[24] != 3 || b[25] != 1 {
		return nil, fmt.Errorf("version %d.%d", b[25], b[24])
	}
	if p.TotalSize > len(b) {
		return nil, fmt.Errorf("cbCabinet %d > file size %d", p.TotalSize, len(b))
	}
	pos := 36
	folderRes, dataRes := 0, 0
	if p.Flags&4 != 0 {
		if pos+4 > len(b) {
			return nil, fmt.Errorf("short reserve header")
		}
		p.HeaderRes = int(le.Uint16(b[pos:]))
		folderRes = int(b[pos+2])
		dataRes = int(b[pos+3])
		pos += 4
		if p.HeaderRes == 20 && pos+20 <= len(b) {
			p.SigOffset = int(le.Uint32(b[pos+4:]))
			p.SigSize = int(le.Uint32(b[pos+8:]))
		}
		pos += p.HeaderRes
	}
	if p.Flags&3 != 0 {
		return nil, fmt.Errorf("multi-cabinet set not handled")
	}
	type fh struct{ off, n, typ int }
	var fhs []fh
	for i := 0; i < nFolders; i++ {
		if pos+8+folderRes > len(b) {
			return nil, fmt.Errorf("short folder table")
		}
		fhs = append(fhs, fh{int(le.Uint32(b[pos:])), int(le.Uint16(b[pos+4:])), int(le.Uint16(b[pos+6:]))})
		pos += 8 + folderRes
	}
	if pos != coffFiles {
		return nil, fmt.Errorf("coffFiles %d but folder table ends at %d", coffFiles, pos)
	}
	for i := 0; i < nFiles; i++ {
		if pos+17 > len(b) {
			return nil, fmt.Errorf("short file table")
		}
		f := ParsedFile{Size: int(le.Uint32(b[pos:])), Offset: int(le.Uint32(b[pos+4:])), Folder: int(le.Uint16(b[pos+8:]))}
		pos += 16
		end := bytes.IndexByte(b[pos:], 0)
		if end < 0 || end > 255 {
			return nil, fmt.Errorf("file name not terminated")
		}
		f.Name = string(b[pos : pos+end])
		pos += end + 1
		if f.Folder >= nFolders {
			return nil, fmt.Errorf("file %q in folder %d of %d", f.Name, f.Folder, nFolders)
		}
		p.Files = append(p.Files, f)
	}
	for i, f := range fhs {
		if f.typ&0xf != 0 {
			return nil, fmt.Errorf("folder %d compressed", i)
		}
		if f.n > 0 && f.off != pos {
			return nil, fmt.Errorf("folder %d: coffCabStart %d, expected %d", i, f.off, pos)
		}
		var data []byte
		for k := 0; k < f.n; k++ {
			if pos+8+dataRes > p.TotalSize {
				return nil, fmt.Errorf("folder %d block %d header past cbCabinet", i, k)
			}
			want := le.Uint32(b[pos:])
			cb := int(le.Uint16(b[pos+4:]))
			un := int(le.Uint16(b[pos+6:]))
			if cb != un || cb > blockMax {
				return nil, fmt.Errorf("folder %d block %d: cbData %d cbUncomp %d", i, k, cb, un)
			}
			if pos+8+dataRes+cb > p.TotalSize {
				return nil, fmt.Errorf("folder %d block %d data past cbCabinet", i, k)
			}
			payload := b[pos+8+dataRes : pos+8+dataRes+cb]
			if want != 0 {
				c := csum(payload, 0)
				c = csum(b[pos+4:pos+8+dataRes], c)
				if c != want {
					return nil, fmt.Errorf("folder %d block %d checksum %#x, computed %#x", i, k, want, c)
				}
			}
			data = append(data, payload...)
			pos += 8 + dataRes + cb
		}
		p.FolderData = append(p.FolderData, data)
	}
	if pos != p.TotalSize {
		return nil, fmt.Errorf("data ends at %d, cbCabinet %d", pos, p.TotalSize)
	}
	for _, f := range p.Files {
		if f.Offset+f.Size > len(p.FolderData[f.Folder]) {
			return nil, fmt.Errorf("file %q [%d,+%d) outside folder of %d bytes", f.Name, f.Offset, f.Size, len(p.FolderData[f.Folder]))
		}
	}
	return p, nil
}

func check(b []byte) error {
	p, err := Parse(b)
	if err != nil {
		return err
	}
	if p.TotalSize != len(b) {
		return fmt.Errorf("cbCabinet %d != file size %d", p.TotalSize, len(b))
	}
	return nil
}

func mk(s Spec, class string, strict bool) shape.Shape {
	// a folder without any data block is representable but no cabinet writer
	// produces it: such shapes are never strict
	for _, f := range s.Folders {
		t := 0
		for _, x := range f {
			t += x
		}
		if t == 0 {
			strict = false
		}
	}
	if len(Build(s)) < 245 {
		// so small that a trailing signature starts inside the first 256 bytes of the file
		class = "tiny-cabinet-under-245-bytes"
	}
	return shape.Shape{Name: s.Name(), Class: class, File: "c.cab", Strict: strict, Source: "generated",
		Build: func() ([]byte, error) { return Build(s), nil }, Check: check}
}

func Canonical() Spec { return Spec{Folders: [][]int{{100, 300}}, Reserve: -1, SetID: 0x1234} }

// Ladder is the size ladder shared with the other generators.
var Ladder = []int{0, 1, 511, 512, 513, 4095, 4096, 4097, 32767, 32768, 32769, 65535, 65536, 65537, 1<<20 - 1, 1 << 20, 1<<20 + 1}

// Shapes: canonical first.
//
// quick: 1-3 files, empty file, 2 folders, files straddling the 32 KiB CFDATA
// block, 64 KiB and 1 MiB, 6144 zero bytes of reserved header space
// (ReservePerCabinetSize), long names; lenient: per-folder / per-datablock
// reserve bytes, a 20-byte all-zero header reserve, header reserve of 8 bytes,
// zero CFDATA checksums.
//
// thorough: every ladder size as a single file and as the middle of three
// files; 1..3 files x 1..2 folders over {0,1,32768}; reserve sizes
// {21,24,100,6144}.
func Shapes(thorough bool) []shape.Shape {
	var out []shape.Shape
	out = append(out, mk(Canonical(), "canonical", true))
	with := func(f func(*Spec)) Spec { s := Canonical(); f(&s); return s }
	out = append(out,
		mk(with(func(s *Spec) { s.Folders = [][]int{{1}} }), "files-1", true),
		mk(with(func(s *Spec) { s.Folders = [][]int{{10, 0, 20}} }), "files-3-one-empty", true),
		mk(with(func(s *Spec) { s.Folders = [][]int{{0}} }), "only-empty-file", true),
		mk(with(func(s *Spec) { s.Folders = [][]int{{100}, {200, 5}} }), "folders-2", true),
		mk(with(func(s *Spec) { s.Folders = [][]int{{32767, 2}} }), "block-32KiB-straddle", true),
		mk(with(func(s *Spec) { s.Folders = [][]int{{65537}} }), "size-64KiB+1", true),
		mk(with(func(s *Spec) { s.Folders = [][]int{{1 << 20}} }), "size-1MiB", true),
		mk(with(func(s *Spec) { s.Folders = [][]int{{1<<20 + 1, 511}} }), "size-1MiB+1", true),
		mk(with(func(s *Spec) { s.Reserve = 6144 }), "header-reserve-6144-zero", true),
		mk(with(func(s *Spec) { s.LongName = true }), "long-names", true),
		mk(with(func(s *Spec) { s.Reserve = 0 }), "header-reserve-0", false),
		mk(with(func(s *Spec) { s.Reserve = 20 }), "header-reserve-20-zero", false),
		mk(with(func(s *Spec) { s.Reserve = 8 }), "header-reserve-8", false),
		mk(with(func(s *Spec) { s.FolderReserve = 4; s.DataReserve = 2 }), "folder-and-data-reserve", false),
		mk(with(func(s *Spec) { s.ZeroChecksums = true }), "cfdata-checksum-zero", false),
	)
	if !thorough {
		return out
	}
	seen := map[string]bool{}
	for _, s := range out {
		seen[s.Name] = true
	}
	add := func(s Spec, class string, strict bool) {
		if !seen[s.Name()] {
			seen[s.Name()] = true
			out = append(out, mk(s, class, strict))
		}
	}
	for _, sz := range Ladder {
		add(with(func(s *Spec) { s.Folders = [][]int{{sz}} }), fmt.Sprintf("ladder-single-%d", sz), true)
		add(with(func(s *Spec) { s.Folders = [][]int{{7, sz, 9}} }), fmt.Sprintf("ladder-middle-%d", sz), true)
	}
	small := []int{0, 1, 32768}
	for _, a := range small {
		for _, b := range small {
			add(with(func(s *Spec) { s.Folders = [][]int{{a, b}} }), "grid-files-2", true)
			add(with(func(s *Spec) { s.Folders = [][]int{{a}, {b}} }), "grid-folders-2", true)
			for _, c := range small {
				add(with(func(s *Spec) { s.Folders = [][]int{{a, b, c}} }), "grid-files-3", true)
				add(with(func(s *Spec) { s.Folders = [][]int{{a, b}, {c}} }), "grid-folders-2-files-3", true)
			}
		}
	}
	for _, r := range []int{21, 24, 100, 6144} {
		add(with(func(s *Spec) { s.Reserve = r; s.Folders = [][]int{{513}, {0, 1}} }), fmt.Sprintf("header-reserve-%d-zero", r), r >= 6144)
	}
	return out
}

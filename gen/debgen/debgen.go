// Package debgen is a bounded-exhaustive generator of Debian binary packages
// written from deb(5), ar(5), deb-control(5) / Debian Policy chapter 5 and the
// ustar/GNU tar format (through Go's archive/tar). It does not import relic nor
// the ar library relic uses; the reader in reader.go is likewise written from
// the format descriptions.
//
// A package is described by a small parameter record (Params); Params.Build
// turns it into bytes. Shapes(thorough) enumerates the family.
package debgen

import (
	"archive/tar"
	"bytes"
	"compress/gzip"
	"crypto/md5"
	"encoding/hex"
	"fmt"
	"os"
	"strings"
	"time"

	"verif/gen/shape"
)

// FixturePath is the sample package shipped with relic's functional tests.
const FixturePath = "/repo/functest/packages/zlib1g_1.2.8.dfsg-5_i386.deb"

// MTime is the fixed modification time used for every ar and tar member.
const MTime = 1700000000

// Ladder is the thorough data-file size ladder: it straddles the tar block
// (512), a page (4096), the 64 KiB and the 1 MiB boundaries.
var Ladder = []int{0, 1, 511, 512, 513, 4095, 4096, 4097, 65535, 65536, 65537, 1048575, 1048576, 1048577}

// Parity of an ar member length.
const (
	Natural = -1 // whatever the compressor produces
	Even    = 0
	Odd     = 1
)

// Extra describes an additional ar member.
type Extra struct {
	Name string
	Data []byte
	// Pos: 1 = between debian-binary and control.tar, 2 = between control.tar
	// and data.tar, 3 = after data.tar.
	Pos int
}

// Params is the parameter record of one generated package.
type Params struct {
	Package, Version, Arch string
	CtrlComp, DataComp     string // "gz" or "" (uncompressed)
	CtrlParity, DataParity int    // Natural / Even / Odd; uncompressed tar is always even
	Files                  []int  // data file sizes
	// CtrlStyle: 0 typical ("./", "./control", "./md5sums"), 1 minimal (only
	// "./control"), 2 bare names ("control", "md5sums" without "./").
	CtrlStyle int
	// FieldStyle: 0 "Name: value", 1 lower-case field names, 2 "Name:value"
	// (no blank after the colon).
	FieldStyle int
	// DataStyle: 0 typical (directory entries, then files), 1 a tar archive
	// without any entry (only the end-of-archive blocks).
	DataStyle int
	// SlashNames writes GNU/SysV style member names with a terminating slash.
	SlashNames bool
	Extras     []Extra
}

func (p Params) dataName() string { return "data.tar" + ext(p.DataComp) }
func (p Params) ctrlName() string { return "control.tar" + ext(p.CtrlComp) }

func ext(c string) string {
	if c == "" {
		return ""
	}
	return "." + c
}

// Content returns n deterministic, practically incompressible bytes
// (xorshift32 stream seeded with seed), so that compressed members keep about
// the size of the file they carry.
func Content(n int, seed uint32) []byte {
	out := make([]byte, n)
	x := seed*2654435761 + 0x9e3779b9
	if x == 0 {
		x = 1
	}
	for i := range out {
		x ^= x << 13
		x ^= x >> 17
		x ^= x << 5
		out[i] = byte(x >> 11)
	}
	return out
}

// FilePath is the path (without leading "./") of data file i.
func (p Params) FilePath(i int) string {
	return fmt.Sprintf("usr/share/%s/f%d.bin", p.Package, i)
}

// ControlText is the text of the control file.
func (p Params) ControlText() string {
	total := 0
	for _, s := range p.Files {
		total += s
	}
	fields := [][2]string{
		{"Package", p.Package},
		{"Version", p.Version},
		{"Architecture", p.Arch},
		{"Maintainer", "Verif Builder <builder@example.org>"},
		{"Installed-Size", fmt.Sprint((total + 1023) / 1024)},
		{"Section", "misc"},
		{"Priority", "optional"},
		{"Description", "generated test package\n  Generated from deb(5) by verif/gen/debgen.\n  .\n  Second paragraph."},
	}
	var sb strings.Builder
	for _, f := range fields {
		name := f[0]
		sep := ": "
		switch p.FieldStyle {
		case 1:
			name = strings.ToLower(name)
		case 2:
			sep = ":"
		}
		sb.WriteString(name + sep + f[1] + "\n")
	}
	return sb.String()
}

func tarHeader(name string, size int, dir bool) *tar.Header {
	h := &tar.Header{
		Name:    name,
		Mode:    0644,
		ModTime: time.Unix(MTime, 0),
		Uname:   "root",
		Gname:   "root",
		Format:  tar.FormatGNU,
	}
	if dir {
		h.Typeflag = tar.TypeDir
		h.Mode = 0755
	} else {
		h.Typeflag = tar.TypeReg
		h.Size = int64(size)
	}
	return h
}

type tarEnt struct {
	name string
	data []byte
	dir  bool
}

func writeTar(ents []tarEnt) ([]byte, error) {
	var buf bytes.Buffer
	tw := tar.NewWriter(&buf)
	for _, e := range ents {
		if err := tw.WriteHeader(tarHeader(e.name, len(e.data), e.dir)); err != nil {
			return nil, err
		}
		if !e.dir {
			if _, err := tw.Write(e.data); err != nil {
				return nil, err
			}
		}
	}
	if err := tw.Close(); err != nil {
		return nil, err
	}
	return buf.Bytes(), nil
}

func gz(data []byte, comment string) ([]byte, error) {
	var buf bytes.Buffer
	w, err := gzip.NewWriterLevel(&buf, gzip.DefaultCompression)
	if err != nil {
		return nil, err
	}
	w.Header.Comment = comment
	w.Header.OS = 3 // Unix
	if _, err := w.Write(data); err != nil {
		return nil, err
	}
	if err := w.Close(); err != nil {
		return nil, err
	}
	return buf.Bytes(), nil
}

// compress wraps a tar archive and steers the parity of the resulting member
// length through the length of the (optional, RFC 1952) gzip comment field.
func compress(tarBytes []byte, comp string, parity int) ([]byte, error) {
	switch comp {
	case "":
		if parity == Odd {
			return nil, fmt.Errorf("an uncompressed tar archive always has even length")
		}
		return tarBytes, nil
	case "gz":
		out, err := gz(tarBytes, "")
		if err != nil {
			return nil, err
		}
		if parity != Natural && len(out)%2 != parity {
			// "pp\0" adds three bytes
			out, err = gz(tarBytes, "pp")
			if err != nil {
				return nil, err
			}
			if len(out)%2 != parity {
				return nil, fmt.Errorf("cannot reach parity %d", parity)
			}
		}
		return out, nil
	}
	return nil, fmt.Errorf("compression %q cannot be written with the standard library", comp)
}

func (p Params) dataTar() ([]byte, error) {
	if p.DataStyle == 1 {
		return writeTar(nil)
	}
	ents := []tarEnt{{name: "./", dir: true}}
	if len(p.Files) > 0 {
		ents = append(ents,
			tarEnt{name: "./usr/", dir: true},
			tarEnt{name: "./usr/share/", dir: true},
			tarEnt{name: "./usr/share/" + p.Package + "/", dir: true})
	}
	for i, s := range p.Files {
		ents = append(ents, tarEnt{name: "./" + p.FilePath(i), data: Content(s, uint32(i+1))})
	}
	return writeTar(ents)
}

func (p Params) controlTar() ([]byte, error) {
	var sums strings.Builder
	for i, s := range p.Files {
		d := md5.Sum(Content(s, uint32(i+1)))
		sums.WriteString(hex.EncodeToString(d[:]) + "  " + p.FilePath(i) + "\n")
	}
	ctl := []byte(p.ControlText())
	var ents []tarEnt
	switch p.CtrlStyle {
	case 0:
		ents = []tarEnt{{name: "./", dir: true}, {name: "./control", data: ctl}, {name: "./md5sums", data: []byte(sums.String())}}
	case 1:
		ents = []tarEnt{{name: "./control", data: ctl}}
	case 2:
		ents = []tarEnt{{name: "control", data: ctl}, {name: "md5sums", data: []byte(sums.String())}}
	default:
		return nil, fmt.Errorf("unknown CtrlStyle %d", p.CtrlStyle)
	}
	return writeTar(ents)
}

// arMember appends one ar(5) member: 60-byte header, data, "\n" pad to even.
func arMember(buf *bytes.Buffer, name string, data []byte, slash bool) error {
	if slash {
		name += "/"
	}
	if len(name) > 16 {
		return fmt.Errorf("ar member name %q longer than 16 bytes", name)
	}
	fmt.Fprintf(buf, "%-16s%-12d%-6d%-6d%-8s%-10d`\n", name, int64(MTime), 0, 0, "100644", len(data))
	buf.Write(data)
	if len(data)%2 == 1 {
		buf.WriteByte('\n')
	}
	return nil
}

// Build writes the package.
func (p Params) Build() ([]byte, error) {
	ct, err := p.controlTar()
	if err != nil {
		return nil, err
	}
	cm, err := compress(ct, p.CtrlComp, p.CtrlParity)
	if err != nil {
		return nil, fmt.Errorf("control.tar: %w", err)
	}
	dt, err := p.dataTar()
	if err != nil {
		return nil, err
	}
	dm, err := compress(dt, p.DataComp, p.DataParity)
	if err != nil {
		return nil, fmt.Errorf("data.tar: %w", err)
	}
	var buf bytes.Buffer
	buf.WriteString("!<arch>\n")
	extras := func(pos int) error {
		for _, e := range p.Extras {
			if e.Pos == pos {
				if err := arMember(&buf, e.Name, e.Data, p.SlashNames); err != nil {
					return err
				}
			}
		}
		return nil
	}
	if err := arMember(&buf, "debian-binary", []byte("2.0\n"), p.SlashNames); err != nil {
		return nil, err
	}
	if err := extras(1); err != nil {
		return nil, err
	}
	if err := arMember(&buf, p.ctrlName(), cm, p.SlashNames); err != nil {
		return nil, err
	}
	if err := extras(2); err != nil {
		return nil, err
	}
	if err := arMember(&buf, p.dataName(), dm, p.SlashNames); err != nil {
		return nil, err
	}
	if err := extras(3); err != nil {
		return nil, err
	}
	return buf.Bytes(), nil
}

// Name names every generator parameter.
func (p Params) Name() string {
	par := func(v int) string {
		switch v {
		case Even:
			return "even"
		case Odd:
			return "odd"
		}
		return "nat"
	}
	cz := func(c string) string {
		if c == "" {
			return "none"
		}
		return c
	}
	var sizes []string
	for _, s := range p.Files {
		sizes = append(sizes, fmt.Sprint(s))
	}
	s := fmt.Sprintf("deb/%s_%s_%s/ctrl=%s,%s,style%d,fields%d/data=%s,%s,style%d/files=%d[%s]",
		p.Package, p.Version, p.Arch, cz(p.CtrlComp), par(p.CtrlParity), p.CtrlStyle, p.FieldStyle,
		cz(p.DataComp), par(p.DataParity), p.DataStyle, len(p.Files), strings.Join(sizes, ","))
	if p.SlashNames {
		s += "/slashnames"
	}
	for _, e := range p.Extras {
		s += fmt.Sprintf("/extra=%s@%d:%d", e.Name, e.Pos, len(e.Data))
	}
	return s
}

// check is Parse plus the shape-specific expectations (fields, member names,
// file list and contents, member length parity, member count).
func (p Params) check(b []byte) error {
	d, err := Parse(b)
	if err != nil {
		return err
	}
	if d.Control["Package"] != p.Package || d.Control["Version"] != p.Version || d.Control["Architecture"] != p.Arch {
		return fmt.Errorf("control fields %v do not match the parameters", d.Control)
	}
	if d.ControlMember != p.ctrlName() || d.DataMember != p.dataName() {
		return fmt.Errorf("member names %q/%q, want %q/%q", d.ControlMember, d.DataMember, p.ctrlName(), p.dataName())
	}
	if len(d.DataFiles) != len(p.Files) {
		return fmt.Errorf("%d data files, want %d", len(d.DataFiles), len(p.Files))
	}
	for i, f := range d.DataFiles {
		if f.Size != int64(p.Files[i]) || f.Name != "./"+p.FilePath(i) {
			return fmt.Errorf("data file %d is %s (%d bytes), want %s (%d bytes)", i, f.Name, f.Size, p.FilePath(i), p.Files[i])
		}
		want := md5.Sum(Content(p.Files[i], uint32(i+1)))
		if f.MD5 != want {
			return fmt.Errorf("data file %d content differs", i)
		}
	}
	for _, m := range d.Members {
		switch m.Name {
		case p.ctrlName():
			if p.CtrlParity != Natural && int(m.Size%2) != p.CtrlParity {
				return fmt.Errorf("control member length %d has wrong parity", m.Size)
			}
		case p.dataName():
			if p.DataParity != Natural && int(m.Size%2) != p.DataParity {
				return fmt.Errorf("data member length %d has wrong parity", m.Size)
			}
		}
	}
	want := 3 + len(p.Extras)
	if len(d.Members) != want {
		return fmt.Errorf("%d ar members, want %d", len(d.Members), want)
	}
	return nil
}

// Shape wraps the parameter record.
func (p Params) Shape(class string, strict bool) shape.Shape {
	return shape.Shape{
		Name:   p.Name(),
		Class:  class,
		File:   "p.deb",
		Strict: strict,
		Source: "generated",
		Build:  p.Build,
		Check:  p.check,
	}
}

func base() Params {
	return Params{
		Package: "verif-pkg", Version: "1.0-1", Arch: "all",
		CtrlComp: "gz", DataComp: "gz",
		CtrlParity: Even, DataParity: Even,
		Files: []int{100},
	}
}

// SizeClass is the class name of a single-file size.
func SizeClass(n int) string {
	type b struct {
		v int
		s string
	}
	for _, x := range []b{{1 << 20, "1MiB"}, {64 << 10, "64KiB"}, {4096, "4096"}, {512, "512"}} {
		switch n {
		case x.v - 1:
			return "size-" + x.s + "-1"
		case x.v:
			return "size-" + x.s
		case x.v + 1:
			return "size-" + x.s + "+1"
		}
	}
	return fmt.Sprintf("size-%d", n)
}

func fixture() shape.Shape {
	return shape.Shape{
		Name:   "deb/fixture/zlib1g_1.2.8.dfsg-5_i386.deb",
		Class:  "fixture-data-tar-xz",
		File:   "p.deb",
		Strict: true,
		Source: "fixture",
		Build:  func() ([]byte, error) { return os.ReadFile(FixturePath) },
		Check: func(b []byte) error {
			d, err := Parse(b)
			if err != nil {
				return err
			}
			if d.Control["Package"] != "zlib1g" || d.Control["Version"] != "1:1.2.8.dfsg-5" || d.DataMember != "data.tar.xz" {
				return fmt.Errorf("fixture has unexpected contents: %v %s", d.Control, d.DataMember)
			}
			return nil
		},
	}
}

// Shapes enumerates the family: canonical first, then simplest first.
func Shapes(thorough bool) []shape.Shape {
	var out []shape.Shape
	add := func(class string, strict bool, mod func(*Params)) {
		p := base()
		if mod != nil {
			mod(&p)
		}
		out = append(out, p.Shape(class, strict))
	}
	foreign := []byte("-----BEGIN PGP SIGNED MESSAGE-----\nHash: SHA256\n\nVersion: 4\nSigner: somebody else\nRole: origin\nFiles: \n\n-----BEGIN PGP SIGNATURE-----\n\nAAAA\n-----END PGP SIGNATURE-----\n")

	add("canonical", true, nil)
	add("payload-empty", true, func(p *Params) { p.Files = nil })
	quickSizes := []int{512, 65537, 1048576}
	sizes := quickSizes
	if thorough {
		sizes = Ladder
	}
	for _, s := range sizes {
		s := s
		add(SizeClass(s), true, func(p *Params) { p.Files = []int{s} })
	}
	add("files-3", true, func(p *Params) { p.Files = []int{1, 513, 4097} })
	add("ar-pad-ctrl-odd-data-odd", true, func(p *Params) { p.CtrlParity, p.DataParity = Odd, Odd })
	add("control-tar-none-data-tar-none", true, func(p *Params) { p.CtrlComp, p.DataComp = "", "" })
	add("version-epoch-tilde", true, func(p *Params) { p.Package, p.Version, p.Arch = "lib-verif+x.1", "1:2.0~rc1-1", "amd64" })
	if thorough {
		add("files-2", true, func(p *Params) { p.Files = []int{511, 512} })
		add("files-3-large", true, func(p *Params) { p.Files = []int{65536, 0, 1048577} })
		add("ar-pad-ctrl-odd-data-even", true, func(p *Params) { p.CtrlParity, p.DataParity = Odd, Even })
		add("ar-pad-ctrl-even-data-odd", true, func(p *Params) { p.CtrlParity, p.DataParity = Even, Odd })
		add("ar-pad-ctrl-odd-data-odd", true, func(p *Params) { p.CtrlParity, p.DataParity, p.Files = Odd, Odd, nil })
		add("ar-pad-ctrl-odd-data-odd", true, func(p *Params) { p.CtrlParity, p.DataParity, p.Files = Odd, Odd, []int{65537} })
		add("control-tar-none", true, func(p *Params) { p.CtrlComp = "" })
		add("data-tar-none", true, func(p *Params) { p.DataComp = "" })
		add("data-tar-none", true, func(p *Params) { p.DataComp, p.CtrlParity, p.Files = "", Odd, []int{4096, 4097} })
		add("data-tar-none", true, func(p *Params) { p.DataComp, p.Files = "", nil })
		add("version-epoch-tilde", true, func(p *Params) { p.Package, p.Version, p.Arch = "a0", "0~", "i386" })
		add("version-native", true, func(p *Params) { p.Version = "20240101" })
		add("version-epoch-tilde", true, func(p *Params) { p.Version = "2:1.2.8.dfsg-5~bpo1+b2" })
		add("control-tar-minimal", true, func(p *Params) { p.CtrlStyle = 1 })
	}
	// lenient: legal, but not what dpkg-deb --build writes
	extra := []byte("ignored by dpkg\n")
	add("members-extra", false, func(p *Params) { p.Extras = []Extra{{Name: "_extra", Data: extra, Pos: 1}} })
	add("already-signed-third-party", false, func(p *Params) { p.Extras = []Extra{{Name: "_gpgorigin", Data: foreign, Pos: 3}} })
	if thorough {
		add("members-extra", false, func(p *Params) { p.Extras = []Extra{{Name: "_extra", Data: extra[:15], Pos: 1}} })
		add("members-extra-mid", false, func(p *Params) { p.Extras = []Extra{{Name: "_extra", Data: extra, Pos: 2}} })
		add("members-extra-trailing", false, func(p *Params) { p.Extras = []Extra{{Name: "_extra", Data: extra[:15], Pos: 3}} })
		add("members-extra-trailing", false, func(p *Params) { p.Extras = []Extra{{Name: "extra-member", Data: extra, Pos: 3}} })
		add("already-signed-third-party", false, func(p *Params) { p.Extras = []Extra{{Name: "_gpgorigin", Data: foreign[:len(foreign)-1], Pos: 3}} })
		add("already-signed-third-party-mid", false, func(p *Params) { p.Extras = []Extra{{Name: "_gpgorigin", Data: foreign, Pos: 1}} })
		add("already-signed-same-role", false, func(p *Params) { p.Extras = []Extra{{Name: "_gpgbuilder", Data: foreign, Pos: 3}} })
		add("already-signed-same-role", false, func(p *Params) { p.Extras = []Extra{{Name: "_gpgbuilder", Data: foreign[:len(foreign)-1], Pos: 3}} })
		add("already-signed-same-role-mid", false, func(p *Params) {
			p.Extras = []Extra{{Name: "_gpgbuilder", Data: foreign[:len(foreign)-1], Pos: 2}}
		})
		add("already-signed-same-role-then-extra", false, func(p *Params) {
			p.Extras = []Extra{{Name: "_gpgbuilder", Data: foreign[:len(foreign)-1], Pos: 3}, {Name: "_extra", Data: extra, Pos: 3}}
		})
		add("member-names-slash", false, func(p *Params) { p.SlashNames = true })
		add("control-tar-bare-names", false, func(p *Params) { p.CtrlStyle = 2 })
		add("control-fields-lowercase", false, func(p *Params) { p.FieldStyle = 1 })
		add("control-fields-no-blank", false, func(p *Params) { p.FieldStyle = 2 })
		add("data-tar-no-entries", false, func(p *Params) { p.DataStyle, p.Files = 1, nil })
		add("data-tar-no-entries", false, func(p *Params) { p.DataStyle, p.Files, p.DataComp = 1, nil, "" })
	}
	out = append(out, fixture())
	return out
}

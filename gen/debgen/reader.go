package debgen

import (
	"archive/tar"
	"bytes"
	"compress/bzip2"
	"compress/gzip"
	"crypto/md5"
	"fmt"
	"io"
	"path"
	"regexp"
	"strconv"
	"strings"
)

// Member is one ar(5) archive member as found by the independent reader.
type Member struct {
	Name    string // without padding and without a terminating slash
	RawName string // the 16 header bytes, right-trimmed
	MTime   int64
	UID     int64
	GID     int64
	Mode    int64
	Size    int64
	Offset  int64 // offset of the 60-byte member header in the file
	Data    []byte
}

// TarFile is a regular file found in data.tar.
type TarFile struct {
	Name string
	Size int64
	MD5  [16]byte
}

// Deb is the result of reading a package.
type Deb struct {
	Members       []Member
	ControlMember string
	DataMember    string
	ControlText   string
	Control       map[string]string // field name (canonical capitalisation as written) -> value
	ControlFiles  []string          // names of the entries of control.tar
	DataEntries   int               // number of tar entries of data.tar (-1 if it cannot be decompressed with the stdlib)
	DataFiles     []TarFile         // regular files in data.tar
	Signatures    []string          // names of _gpg* members
}

// ReadAr parses a common-format ar archive (ar(5)): global header
// "!<arch>\n", then members with 60-byte headers; member data is padded with
// "\n" to an even offset.
func ReadAr(b []byte) ([]Member, error) {
	const magic = "!<arch>\n"
	if len(b) < len(magic) || string(b[:len(magic)]) != magic {
		return nil, fmt.Errorf("ar: bad global header")
	}
	var out []Member
	off := int64(len(magic))
	n := int64(len(b))
	for off < n {
		if n-off < 60 {
			return nil, fmt.Errorf("ar: %d trailing bytes at offset %d are not a member header", n-off, off)
		}
		h := b[off : off+60]
		if h[58] != '`' || h[59] != '\n' {
			return nil, fmt.Errorf("ar: bad header terminator at offset %d", off)
		}
		num := func(f []byte, base int, what string) (int64, error) {
			s := strings.TrimRight(string(f), " ")
			if s == "" {
				return 0, nil
			}
			v, err := strconv.ParseInt(s, base, 64)
			if err != nil || v < 0 {
				return 0, fmt.Errorf("ar: bad %s field %q at offset %d", what, string(f), off)
			}
			return v, nil
		}
		m := Member{Offset: off}
		m.RawName = strings.TrimRight(string(h[0:16]), " ")
		m.Name = strings.TrimSuffix(m.RawName, "/")
		if m.Name == "" {
			return nil, fmt.Errorf("ar: empty member name at offset %d", off)
		}
		for _, c := range []byte(m.RawName) {
			if c < 0x21 || c > 0x7e {
				return nil, fmt.Errorf("ar: member name %q has a blank or non-printable byte", m.RawName)
			}
		}
		var err error
		if m.MTime, err = num(h[16:28], 10, "mtime"); err != nil {
			return nil, err
		}
		if m.UID, err = num(h[28:34], 10, "uid"); err != nil {
			return nil, err
		}
		if m.GID, err = num(h[34:40], 10, "gid"); err != nil {
			return nil, err
		}
		if m.Mode, err = num(h[40:48], 8, "mode"); err != nil {
			return nil, err
		}
		if strings.TrimRight(string(h[48:58]), " ") == "" {
			return nil, fmt.Errorf("ar: empty size field at offset %d", off)
		}
		if m.Size, err = num(h[48:58], 10, "size"); err != nil {
			return nil, err
		}
		off += 60
		if m.Size > n-off {
			return nil, fmt.Errorf("ar: member %q (%d bytes) runs past the end of the file", m.Name, m.Size)
		}
		m.Data = b[off : off+m.Size]
		off += m.Size
		if m.Size%2 == 1 {
			if off >= n {
				return nil, fmt.Errorf("ar: missing pad byte after odd-length member %q", m.Name)
			}
			if b[off] != '\n' {
				return nil, fmt.Errorf("ar: pad byte after %q is %#x, want newline", m.Name, b[off])
			}
			off++
		}
		out = append(out, m)
	}
	return out, nil
}

var (
	rePackage = regexp.MustCompile(`^[a-z0-9][a-z0-9+.\-]+$`)
	reArch    = regexp.MustCompile(`^[a-z0-9][a-z0-9\-]*$`)
	reField   = regexp.MustCompile(`^[!-9;-~]+$`)
)

// CheckVersion checks the syntax of Debian Policy 5.6.12.
func CheckVersion(v string) error {
	rest := v
	hasEpoch := false
	if i := strings.IndexByte(rest, ':'); i >= 0 {
		if _, err := strconv.ParseUint(rest[:i], 10, 31); err != nil {
			return fmt.Errorf("version %q: bad epoch", v)
		}
		rest = rest[i+1:]
		hasEpoch = true
	}
	_ = hasEpoch
	upstream := rest
	if i := strings.LastIndexByte(rest, '-'); i >= 0 {
		upstream = rest[:i]
		rev := rest[i+1:]
		if rev == "" {
			return fmt.Errorf("version %q: empty revision", v)
		}
		for _, c := range rev {
			if !(c >= '0' && c <= '9' || c >= 'a' && c <= 'z' || c >= 'A' && c <= 'Z' || c == '+' || c == '.' || c == '~') {
				return fmt.Errorf("version %q: bad character in revision", v)
			}
		}
	}
	if upstream == "" || upstream[0] < '0' || upstream[0] > '9' {
		return fmt.Errorf("version %q: upstream version must start with a digit", v)
	}
	for _, c := range upstream {
		if !(c >= '0' && c <= '9' || c >= 'a' && c <= 'z' || c >= 'A' && c <= 'Z' || c == '+' || c == '.' || c == '~' || c == '-') {
			return fmt.Errorf("version %q: bad character in upstream version", v)
		}
	}
	return nil
}

// ParseControl reads a single deb822 paragraph. Field names are returned with
// their first letter and every letter after '-' upper-cased.
func ParseControl(text string) (map[string]string, error) {
	out := map[string]string{}
	last := ""
	lines := strings.Split(text, "\n")
	if lines[len(lines)-1] == "" {
		lines = lines[:len(lines)-1]
	}
	for i, line := range lines {
		if strings.TrimRight(line, " \t") == "" {
			return nil, fmt.Errorf("control: empty line %d inside the paragraph", i+1)
		}
		if line[0] == ' ' || line[0] == '\t' {
			if last == "" {
				return nil, fmt.Errorf("control: continuation line %d without a field", i+1)
			}
			out[last] += "\n" + line
			continue
		}
		if line[0] == '#' {
			continue
		}
		j := strings.IndexByte(line, ':')
		if j <= 0 {
			return nil, fmt.Errorf("control: line %d is not a field", i+1)
		}
		name := line[:j]
		if !reField.MatchString(name) || name[0] == '-' {
			return nil, fmt.Errorf("control: bad field name %q", name)
		}
		canon := []byte(strings.ToLower(name))
		up := true
		for k, c := range canon {
			if up && c >= 'a' && c <= 'z' {
				canon[k] = c - 32
			}
			up = c == '-'
		}
		last = string(canon)
		if _, dup := out[last]; dup {
			return nil, fmt.Errorf("control: duplicate field %q", name)
		}
		out[last] = strings.Trim(line[j+1:], " \t")
	}
	return out, nil
}

func decompressor(name string, data []byte) (io.Reader, error) {
	switch path.Ext(name) {
	case ".tar":
		return bytes.NewReader(data), nil
	case ".gz":
		return gzip.NewReader(bytes.NewReader(data))
	case ".bz2":
		return bzip2.NewReader(bytes.NewReader(data)), nil
	case ".xz":
		if len(data) < 12 || !bytes.Equal(data[:6], []byte{0xfd, '7', 'z', 'X', 'Z', 0}) || string(data[len(data)-2:]) != "YZ" {
			return nil, fmt.Errorf("%s: not an xz stream", name)
		}
		return nil, nil
	case ".zst":
		if len(data) < 4 || !bytes.Equal(data[:4], []byte{0x28, 0xb5, 0x2f, 0xfd}) {
			return nil, fmt.Errorf("%s: not a zstd frame", name)
		}
		return nil, nil
	}
	return nil, fmt.Errorf("%s: compression not allowed by deb(5)", name)
}

// Parse reads a Debian binary package and fails if it is not well-formed
// according to deb(5). Members whose names start with "_" and members after
// data.tar are tolerated (and listed), as deb(5) prescribes.
func Parse(b []byte) (*Deb, error) {
	members, err := ReadAr(b)
	if err != nil {
		return nil, err
	}
	d := &Deb{Members: members, DataEntries: -1}
	if len(members) == 0 || members[0].Name != "debian-binary" {
		return nil, fmt.Errorf("deb: first member is not debian-binary")
	}
	ver := string(members[0].Data)
	lines := strings.Split(ver, "\n")
	if len(lines) < 2 || !regexp.MustCompile(`^2\.[0-9]+$`).MatchString(lines[0]) {
		return nil, fmt.Errorf("deb: bad format version %q", ver)
	}
	seen := map[string]bool{}
	state := 0 // 0: want control.tar, 1: want data.tar, 2: after data.tar
	for _, m := range members[1:] {
		if seen[m.Name] {
			return nil, fmt.Errorf("deb: duplicate member %q", m.Name)
		}
		seen[m.Name] = true
		if strings.HasPrefix(m.Name, "_gpg") {
			d.Signatures = append(d.Signatures, m.Name)
		}
		if strings.HasPrefix(m.Name, "_") || state == 2 {
			continue
		}
		switch state {
		case 0:
			switch m.Name {
			case "control.tar", "control.tar.gz", "control.tar.xz", "control.tar.zst":
			default:
				return nil, fmt.Errorf("deb: member %q where control.tar was expected", m.Name)
			}
			d.ControlMember = m.Name
			if err := d.readControl(m); err != nil {
				return nil, err
			}
			state = 1
		case 1:
			switch m.Name {
			case "data.tar", "data.tar.gz", "data.tar.xz", "data.tar.bz2", "data.tar.zst", "data.tar.lzma":
			default:
				return nil, fmt.Errorf("deb: member %q where data.tar was expected", m.Name)
			}
			d.DataMember = m.Name
			if err := d.readData(m); err != nil {
				return nil, err
			}
			state = 2
		}
	}
	if state != 2 {
		return nil, fmt.Errorf("deb: control.tar and/or data.tar missing")
	}
	return d, nil
}

func (d *Deb) readControl(m Member) error {
	r, err := decompressor(m.Name, m.Data)
	if err != nil {
		return err
	}
	if r == nil {
		return fmt.Errorf("%s: cannot be read with the standard library", m.Name)
	}
	tr := tar.NewReader(r)
	found := false
	for {
		h, err := tr.Next()
		if err == io.EOF {
			break
		}
		if err != nil {
			return fmt.Errorf("%s: %w", m.Name, err)
		}
		d.ControlFiles = append(d.ControlFiles, h.Name)
		body, err := io.ReadAll(tr)
		if err != nil {
			return fmt.Errorf("%s: %s: %w", m.Name, h.Name, err)
		}
		if h.Typeflag == tar.TypeReg && (h.Name == "./control" || h.Name == "control") {
			if found {
				return fmt.Errorf("%s: two control files", m.Name)
			}
			found = true
			d.ControlText = string(body)
		}
	}
	if err := drained(r, m.Name); err != nil {
		return err
	}
	if !found {
		return fmt.Errorf("%s: no control file", m.Name)
	}
	d.Control, err = ParseControl(d.ControlText)
	if err != nil {
		return err
	}
	for _, f := range []string{"Package", "Version", "Architecture", "Maintainer", "Description"} {
		if d.Control[f] == "" {
			return fmt.Errorf("control: mandatory field %s missing", f)
		}
	}
	if !rePackage.MatchString(d.Control["Package"]) {
		return fmt.Errorf("control: bad package name %q", d.Control["Package"])
	}
	if !reArch.MatchString(d.Control["Architecture"]) {
		return fmt.Errorf("control: bad architecture %q", d.Control["Architecture"])
	}
	return CheckVersion(d.Control["Version"])
}

// drained makes sure the compressed stream ends cleanly after the tar
// end-of-archive marker (nothing but zero blocks may follow).
func drained(r io.Reader, name string) error {
	rest, err := io.ReadAll(r)
	if err != nil {
		return fmt.Errorf("%s: after end of archive: %w", name, err)
	}
	for _, c := range rest {
		if c != 0 {
			return fmt.Errorf("%s: non-zero bytes after the tar end-of-archive marker", name)
		}
	}
	return nil
}

func (d *Deb) readData(m Member) error {
	r, err := decompressor(m.Name, m.Data)
	if err != nil {
		return err
	}
	if r == nil {
		return nil // xz / zstd: container magic checked only
	}
	tr := tar.NewReader(r)
	d.DataEntries = 0
	for {
		h, err := tr.Next()
		if err == io.EOF {
			break
		}
		if err != nil {
			return fmt.Errorf("%s: %w", m.Name, err)
		}
		d.DataEntries++
		hash := md5.New()
		n, err := io.Copy(hash, tr)
		if err != nil {
			return fmt.Errorf("%s: %s: %w", m.Name, h.Name, err)
		}
		if h.Typeflag == tar.TypeReg {
			if n != h.Size {
				return fmt.Errorf("%s: %s: short entry", m.Name, h.Name)
			}
			f := TarFile{Name: h.Name, Size: n}
			copy(f.MD5[:], hash.Sum(nil))
			d.DataFiles = append(d.DataFiles, f)
		}
	}
	return drained(r, m.Name)
}

// Check is the generic well-formedness check (usable on signed output too).
func Check(b []byte) error {
	_, err := Parse(b)
	return err
}

package debgen

import (
	"os"
	"os/exec"
	"path/filepath"
	"strings"
	"testing"
)

func TestShapes(t *testing.T) {
	dir := t.TempDir()
	for _, thorough := range []bool{false, true} {
		names := map[string]bool{}
		shapes := Shapes(thorough)
		if shapes[0].Class != "canonical" {
			t.Fatalf("first shape is %s", shapes[0].Class)
		}
		parities := map[string]bool{}
		for i, s := range shapes {
			if names[s.Name] {
				t.Errorf("duplicate name %s", s.Name)
			}
			names[s.Name] = true
			if s.File != "p.deb" || s.Class == "" || s.Source == "" {
				t.Errorf("%s: incomplete shape", s.Name)
			}
			b, err := s.Build()
			if err != nil {
				t.Errorf("%s: build: %v", s.Name, err)
				continue
			}
			b2, _ := s.Build()
			if string(b) != string(b2) {
				t.Errorf("%s: not deterministic", s.Name)
			}
			if err := s.Check(b); err != nil {
				t.Errorf("%s: check: %v", s.Name, err)
				continue
			}
			d, _ := Parse(b)
			for _, m := range d.Members {
				if m.Name == d.ControlMember {
					parities["c"+string(rune('0'+m.Size%2))] = true
				}
				if m.Name == d.DataMember {
					parities["d"+string(rune('0'+m.Size%2))] = true
				}
			}
			// independent tools
			p := filepath.Join(dir, "p.deb")
			if err := os.WriteFile(p, b, 0644); err != nil {
				t.Fatal(err)
			}
			out, err := exec.Command("ar", "t", p).CombinedOutput()
			if err != nil {
				t.Errorf("%s: ar t: %v %s", s.Name, err, out)
			}
			if got := len(strings.Fields(string(out))); got != len(d.Members) {
				t.Errorf("%s: ar t lists %d members, reader %d", s.Name, got, len(d.Members))
			}
			outI, errI := exec.Command("dpkg-deb", "-I", p).CombinedOutput()
			outC, errC := exec.Command("dpkg-deb", "-c", p).CombinedOutput()
			if s.Strict {
				if errI != nil {
					t.Errorf("%s: dpkg-deb -I: %v %s", s.Name, errI, outI)
				}
				if errC != nil {
					t.Errorf("%s: dpkg-deb -c: %v %s", s.Name, errC, outC)
				}
				if !strings.Contains(string(outI), "Package: "+d.Control["Package"]) {
					t.Errorf("%s: dpkg-deb -I does not show the package name: %s", s.Name, outI)
				}
				if d.DataEntries >= 0 {
					if got := strings.Count(string(outC), "\n"); got != d.DataEntries {
						t.Errorf("%s: dpkg-deb -c lists %d entries, reader %d", s.Name, got, d.DataEntries)
					}
				}
			} else if errI != nil || errC != nil {
				t.Logf("lenient %d %s: dpkg-deb -I err=%v -c err=%v: %s%s", i, s.Name, errI, errC, outI, outC)
			}
		}
		for _, k := range []string{"c0", "c1", "d0", "d1"} {
			if !parities[k] {
				t.Errorf("thorough=%v: member parity %s never occurs", thorough, k)
			}
		}
		t.Logf("thorough=%v: %d shapes", thorough, len(shapes))
	}
}

func TestReaderRejects(t *testing.T) {
	b, err := base().Build()
	if err != nil {
		t.Fatal(err)
	}
	if err := Check(b[:len(b)-1]); err == nil {
		t.Error("truncated file accepted")
	}
	if err := Check(append(append([]byte{}, b...), 'x')); err == nil {
		t.Error("trailing byte accepted")
	}
	c := append([]byte{}, b...)
	c[8+58] = 'x'
	if err := Check(c); err == nil {
		t.Error("bad header terminator accepted")
	}
	c = append([]byte{}, b...)
	c[8+60] = '3' // debian-binary 3.0
	if err := Check(c); err == nil {
		t.Error("format 3.0 accepted")
	}
}

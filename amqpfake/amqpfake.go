// Package amqpfake is a loopback AMQP 0-9-1 broker written from the protocol
// specification (no code shared with any AMQP library), just enough for a
// publisher that opens a channel, declares an exchange, selects confirm mode,
// publishes and waits for the confirmation. What happens after a complete
// publish is scripted by the harness: it is the environment answer the audit
// sink's behaviour depends on.
package amqpfake

import (
	"bufio"
	"encoding/binary"
	"io"
	"net"
	"sync"
	"time"
)

// Behaviour is what the broker does with a connection.
type Behaviour string

const (
	Ack             Behaviour = "ack"
	Nack            Behaviour = "nack"
	DropAfter       Behaviour = "tcp-dropped-after-publish"       // connection closed without a word
	ChannelClose    Behaviour = "channel-closed-after-publish"    // channel.close 406 PRECONDITION_FAILED
	ConnectionClose Behaviour = "connection-closed-after-publish" // connection.close 320 CONNECTION_FORCED
	DropHandshake   Behaviour = "tcp-dropped-during-handshake"
	DeclareRefused  Behaviour = "exchange-declare-refused" // channel.close 403 ACCESS_REFUSED on exchange.declare
	AckThenDrop     Behaviour = "ack-then-tcp-dropped"     // confirmed, then the connection dies before the closing handshake
)

// All lists the behaviours in the order harnesses enumerate them.
var All = []Behaviour{Ack, Nack, DropAfter, ChannelClose, ConnectionClose, DropHandshake, DeclareRefused, AckThenDrop}

// Confirmed reports whether the broker took responsibility for the message.
func (b Behaviour) Confirmed() bool { return b == Ack || b == AckThenDrop }

type Broker struct {
	ln net.Listener
	mu sync.Mutex
	// Next is consulted once per connection.
	Next func() Behaviour
	// Published holds the body of every completely received message, Acked of every confirmed one.
	Published [][]byte
	Acked     [][]byte
	Conns     int
	// OnPublish, when set, is called (outside the lock) with the number of
	// complete messages received so far, before the scripted behaviour runs:
	// the place where the environment can change in reaction to a publish.
	OnPublish func(n int)
}

func Start() *Broker {
	ln, err := net.Listen("tcp", "127.0.0.1:0")
	if err != nil {
		panic(err)
	}
	b := &Broker{ln: ln, Next: func() Behaviour { return Ack }}
	go func() {
		for {
			c, err := ln.Accept()
			if err != nil {
				return
			}
			go b.serve(c)
		}
	}()
	return b
}

func (b *Broker) URL() string { return "amqp://guest:guest@" + b.ln.Addr().String() + "/" }
func (b *Broker) Close()      { b.ln.Close() }

// Reset forgets what was received.
func (b *Broker) Reset() {
	b.mu.Lock()
	b.Published, b.Acked, b.Conns = nil, nil, 0
	b.mu.Unlock()
}

// AckedBodies returns the bodies of the messages the broker confirmed.
func (b *Broker) AckedBodies() [][]byte {
	b.mu.Lock()
	defer b.mu.Unlock()
	return append([][]byte{}, b.Acked...)
}

func (b *Broker) Counts() (published, acked, conns int) {
	b.mu.Lock()
	defer b.mu.Unlock()
	return len(b.Published), len(b.Acked), b.Conns
}

func u16(v uint16) []byte      { x := make([]byte, 2); binary.BigEndian.PutUint16(x, v); return x }
func u32(v uint32) []byte      { x := make([]byte, 4); binary.BigEndian.PutUint32(x, v); return x }
func u64(v uint64) []byte      { x := make([]byte, 8); binary.BigEndian.PutUint64(x, v); return x }
func shortstr(s string) []byte { return append([]byte{byte(len(s))}, s...) }
func longstr(s string) []byte  { return append(u32(uint32(len(s))), s...) }

func writeFrame(w io.Writer, typ byte, ch uint16, payload []byte) error {
	f := append([]byte{typ}, u16(ch)...)
	f = append(f, u32(uint32(len(payload)))...)
	f = append(f, payload...)
	f = append(f, 0xCE)
	_, err := w.Write(f)
	return err
}

func method(w io.Writer, ch, class, meth uint16, args ...[]byte) error {
	p := append(u16(class), u16(meth)...)
	for _, a := range args {
		p = append(p, a...)
	}
	return writeFrame(w, 1, ch, p)
}

func readFrame(r *bufio.Reader) (typ byte, ch uint16, payload []byte, err error) {
	var hdr [7]byte
	if _, err = io.ReadFull(r, hdr[:]); err != nil {
		return
	}
	typ, ch = hdr[0], binary.BigEndian.Uint16(hdr[1:])
	payload = make([]byte, binary.BigEndian.Uint32(hdr[3:]))
	if _, err = io.ReadFull(r, payload); err != nil {
		return
	}
	var end [1]byte
	_, err = io.ReadFull(r, end[:])
	return
}

func (b *Broker) serve(c net.Conn) {
	defer c.Close()
	c.SetDeadline(time.Now().Add(60 * time.Second))
	b.mu.Lock()
	b.Conns++
	beh := b.Next()
	b.mu.Unlock()
	r := bufio.NewReader(c)
	var proto [8]byte
	if _, err := io.ReadFull(r, proto[:]); err != nil || string(proto[:4]) != "AMQP" {
		return
	}
	if beh == DropHandshake {
		return
	}
	// connection.start: version 0-9, empty server properties, PLAIN, en_US
	if method(c, 0, 10, 10, []byte{0, 9}, u32(0), longstr("PLAIN"), longstr("en_US")) != nil {
		return
	}
	var body []byte
	var want uint64
	confirmMode := false
	var tag uint64
	for {
		typ, ch, p, err := readFrame(r)
		if err != nil {
			return
		}
		switch typ {
		case 8: // heartbeat
			continue
		case 2: // content header: class, weight, body size, properties
			if len(p) >= 12 {
				want = binary.BigEndian.Uint64(p[4:12])
				body = nil
			}
			if want == 0 {
				if b.published(c, ch, beh, body, confirmMode, &tag) {
					return
				}
			}
			continue
		case 3: // content body
			body = append(body, p...)
			if uint64(len(body)) >= want {
				if b.published(c, ch, beh, body, confirmMode, &tag) {
					return
				}
			}
			continue
		}
		if typ != 1 || len(p) < 4 {
			return
		}
		class, meth := binary.BigEndian.Uint16(p), binary.BigEndian.Uint16(p[2:])
		switch {
		case class == 10 && meth == 11: // start-ok -> tune (channel-max 0, frame-max 131072, no heartbeat)
			method(c, 0, 10, 30, u16(0), u32(131072), u16(0))
		case class == 10 && meth == 31: // tune-ok
		case class == 10 && meth == 40: // open -> open-ok
			method(c, 0, 10, 41, shortstr(""))
		case class == 20 && meth == 10: // channel.open -> open-ok
			method(c, ch, 20, 11, longstr(""))
		case class == 40 && meth == 10: // exchange.declare
			if beh == DeclareRefused {
				method(c, ch, 20, 40, u16(403), shortstr("ACCESS_REFUSED - scripted"), u16(40), u16(10))
				continue
			}
			method(c, ch, 40, 11)
		case class == 85 && meth == 10: // confirm.select -> select-ok
			confirmMode = true
			method(c, ch, 85, 11)
		case class == 60 && meth == 40: // basic.publish: header and body frames follow
		case class == 20 && meth == 40: // channel.close -> close-ok
			method(c, ch, 20, 41)
		case class == 20 && meth == 41: // channel.close-ok
		case class == 10 && meth == 50: // connection.close -> close-ok
			method(c, 0, 10, 51)
			return
		case class == 10 && meth == 51:
			return
		}
	}
}

// published is called when a message is complete; true = the connection is over.
func (b *Broker) published(c net.Conn, ch uint16, beh Behaviour, body []byte, confirmMode bool, tag *uint64) bool {
	*tag++
	b.mu.Lock()
	n := len(b.Published) + 1
	hook := b.OnPublish
	b.mu.Unlock()
	if hook != nil {
		hook(n)
	}
	b.mu.Lock()
	b.Published = append(b.Published, append([]byte{}, body...))
	if beh.Confirmed() {
		b.Acked = append(b.Acked, append([]byte{}, body...))
	}
	b.mu.Unlock()
	switch beh {
	case Ack:
		if confirmMode {
			method(c, ch, 60, 80, u64(*tag), []byte{0})
		}
	case AckThenDrop:
		if confirmMode {
			method(c, ch, 60, 80, u64(*tag), []byte{0})
		}
		time.Sleep(2 * time.Millisecond)
		return true
	case Nack:
		method(c, ch, 60, 120, u64(*tag), []byte{0})
	case DropAfter:
		return true
	case ChannelClose:
		method(c, ch, 20, 40, u16(406), shortstr("PRECONDITION_FAILED - scripted"), u16(60), u16(40))
	case ConnectionClose:
		method(c, 0, 10, 50, u16(320), shortstr("CONNECTION_FORCED - scripted"), u16(0), u16(0))
	}
	return false
}

package amqpfake_test

import (
	"crypto"
	"testing"

	"github.com/sassoftware/relic/v8/config"
	"github.com/sassoftware/relic/v8/lib/audit"

	"verif/amqpfake"
)

// relic's own publisher against every scripted behaviour: it reports success
// exactly when the broker confirmed.
func TestPublisherAgainstBroker(t *testing.T) {
	b := amqpfake.Start()
	defer b.Close()
	for _, beh := range amqpfake.All {
		beh := beh
		b.Reset()
		b.Next = func() amqpfake.Behaviour { return beh }
		info := audit.New("key", "pgp", crypto.SHA256)
		info.Attributes["client.filename"] = "x"
		err := info.Publish(&config.AmqpConfig{URL: b.URL()})
		pub, acked, conns := b.Counts()
		t.Logf("%-34s err=%v published=%d acked=%d conns=%d", beh, err, pub, acked, conns)
		if (err == nil) != beh.Confirmed() {
			t.Errorf("%s: err=%v, broker confirmed=%v", beh, err, beh.Confirmed())
		}
	}
}

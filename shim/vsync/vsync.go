// Package vsync is a drop-in for package sync in rewritten relic packages.
// Under an active mc.Sched every operation of a scheduled thread is a
// scheduling point and blocking is modelled; outside (set-up code, unscheduled
// goroutines) the primitives behave like the real ones.
package vsync

import (
	"runtime"
	"sync"

	"verif/mc"
)

type (
	Map    = sync.Map
	Locker = sync.Locker
)

var (
	OnceFunc = sync.OnceFunc
)

var g sync.Mutex // protects the virtual state of all primitives

func me() *mc.Thread { return mc.Active().Me() }

type Mutex struct {
	held bool
	name string
}

func (m *Mutex) Lock() {
	t := me()
	if t != nil {
		t.Point("lock")
	}
	for {
		g.Lock()
		if !m.held {
			m.held = true
			g.Unlock()
			return
		}
		g.Unlock()
		if t != nil {
			t.Block(m, "mutex")
		} else {
			mc.AbortIfTearingDown()
			runtime.Gosched()
		}
	}
}

func (m *Mutex) TryLock() bool {
	if t := me(); t != nil {
		t.Point("trylock")
	}
	g.Lock()
	defer g.Unlock()
	if m.held {
		return false
	}
	m.held = true
	return true
}

func (m *Mutex) Unlock() {
	t := me()
	if t != nil {
		t.Point("unlock")
	}
	g.Lock()
	if !m.held {
		g.Unlock()
		panic("vsync: unlock of unlocked mutex")
	}
	m.held = false
	g.Unlock()
	if s := mc.Active(); s != nil {
		s.Unblock(m)
	}
}

type RWMutex struct {
	writer  bool
	readers int
}

func (m *RWMutex) Lock() {
	t := me()
	if t != nil {
		t.Point("wlock")
	}
	for {
		g.Lock()
		if !m.writer && m.readers == 0 {
			m.writer = true
			g.Unlock()
			return
		}
		g.Unlock()
		if t != nil {
			t.Block(m, "rwmutex")
		} else {
			mc.AbortIfTearingDown()
			runtime.Gosched()
		}
	}
}

func (m *RWMutex) Unlock() {
	if t := me(); t != nil {
		t.Point("wunlock")
	}
	g.Lock()
	m.writer = false
	g.Unlock()
	if s := mc.Active(); s != nil {
		s.Unblock(m)
	}
}

func (m *RWMutex) RLock() {
	t := me()
	if t != nil {
		t.Point("rlock")
	}
	for {
		g.Lock()
		if !m.writer {
			m.readers++
			g.Unlock()
			return
		}
		g.Unlock()
		if t != nil {
			t.Block(m, "rwmutex")
		} else {
			mc.AbortIfTearingDown()
			runtime.Gosched()
		}
	}
}

func (m *RWMutex) RUnlock() {
	if t := me(); t != nil {
		t.Point("runlock")
	}
	g.Lock()
	m.readers--
	g.Unlock()
	if s := mc.Active(); s != nil {
		s.Unblock(m)
	}
}

func (m *RWMutex) RLocker() Locker { return rlocker{m} }

type rlocker struct{ m *RWMutex }

func (r rlocker) Lock()   { r.m.RLock() }
func (r rlocker) Unlock() { r.m.RUnlock() }

type WaitGroup struct {
	n int
}

func (w *WaitGroup) Add(d int) {
	if t := me(); t != nil {
		t.Point("wg.add")
	}
	g.Lock()
	w.n += d
	n := w.n
	g.Unlock()
	if n < 0 {
		panic("vsync: negative WaitGroup counter")
	}
	if n == 0 {
		if s := mc.Active(); s != nil {
			s.Unblock(w)
		}
	}
}

func (w *WaitGroup) Done() { w.Add(-1) }

func (w *WaitGroup) Wait() {
	t := me()
	if t != nil {
		t.Point("wg.wait")
	}
	for {
		g.Lock()
		n := w.n
		g.Unlock()
		if n == 0 {
			return
		}
		if t != nil {
			t.Block(w, "waitgroup")
		} else {
			mc.AbortIfTearingDown()
			runtime.Gosched()
		}
	}
}

type Once struct {
	m    Mutex
	done bool
}

func (o *Once) Do(f func()) {
	o.m.Lock()
	defer o.m.Unlock()
	if !o.done {
		defer func() { o.done = true }()
		f()
	}
}

type Cond struct {
	L   Locker
	gen int
}

func NewCond(l Locker) *Cond { return &Cond{L: l} }

func (c *Cond) Wait() {
	t := me()
	g.Lock()
	gen := c.gen
	g.Unlock()
	c.L.Unlock()
	for {
		g.Lock()
		cur := c.gen
		g.Unlock()
		if cur != gen {
			break
		}
		if t != nil {
			t.Block(c, "cond")
		} else {
			mc.AbortIfTearingDown()
			runtime.Gosched()
		}
	}
	c.L.Lock()
}

func (c *Cond) Signal() { c.Broadcast() }

func (c *Cond) Broadcast() {
	if t := me(); t != nil {
		t.Point("cond.broadcast")
	}
	g.Lock()
	c.gen++
	g.Unlock()
	if s := mc.Active(); s != nil {
		s.Unblock(c)
	}
}

// Pool is a deterministic stand-in for sync.Pool: last in, first out, nothing
// is ever dropped. (sync.Pool may hand back any object that was Put, so this is
// one of its legal behaviours - the one that makes an object Put twice come
// back twice, on every run.)
type Pool struct {
	New   func() any
	mu    sync.Mutex
	items []any
}

func (p *Pool) Get() any {
	p.mu.Lock()
	if n := len(p.items); n > 0 {
		x := p.items[n-1]
		p.items = p.items[:n-1]
		p.mu.Unlock()
		return x
	}
	p.mu.Unlock()
	if p.New != nil {
		return p.New()
	}
	return nil
}

func (p *Pool) Put(x any) {
	if x == nil {
		return
	}
	p.mu.Lock()
	p.items = append(p.items, x)
	p.mu.Unlock()
}

// Package vcontext is a drop-in for package context in rewritten relic
// packages: identical except that WithTimeout/WithDeadline contexts are driven
// by the virtual clock (verif/shim/vtime) and resolved by a harness policy
// instead of by real timers.
package vcontext

import (
	"context"
	"sync"
	"time"

	"verif/shim/vtime"
)

type (
	Context         = context.Context
	CancelFunc      = context.CancelFunc
	CancelCauseFunc = context.CancelCauseFunc
)

var (
	Canceled         = context.Canceled
	DeadlineExceeded = context.DeadlineExceeded

	Background      = context.Background
	TODO            = context.TODO
	WithCancel      = context.WithCancel
	WithCancelCause = context.WithCancelCause
	WithValue       = context.WithValue
	WithoutCancel   = context.WithoutCancel
	AfterFunc       = context.AfterFunc
	Cause           = context.Cause
)

// VCtx is a virtual-time deadline context.
type VCtx struct {
	parent   context.Context
	mu       sync.Mutex
	done     chan struct{}
	err      error
	deadline time.Time
	D        time.Duration
	stop     func() bool
}

func (v *VCtx) Deadline() (time.Time, bool) {
	if pd, ok := v.parent.Deadline(); ok && pd.Before(v.deadline) {
		return pd, true
	}
	return v.deadline, true
}
func (v *VCtx) Done() <-chan struct{} { return v.done }
func (v *VCtx) Err() error {
	// propagate a parent's end synchronously (context.AfterFunc alone would do it
	// from another goroutine, i.e. at a nondeterministic moment)
	if perr := v.parent.Err(); perr != nil {
		v.finish(perr)
	}
	v.mu.Lock()
	defer v.mu.Unlock()
	return v.err
}
func (v *VCtx) Value(k any) any { return v.parent.Value(k) }

func (v *VCtx) finish(err error) {
	v.mu.Lock()
	if v.err == nil {
		v.err = err
		close(v.done)
	}
	v.mu.Unlock()
}

// Expire moves the virtual clock to the deadline (if it is still ahead) and
// ends the context with DeadlineExceeded.
func (v *VCtx) Expire() {
	if now := vtime.Now(); now.Before(v.deadline) {
		vtime.Advance(v.deadline.Sub(now))
	}
	v.finish(context.DeadlineExceeded)
}

// ExpireNow ends the context with DeadlineExceeded at the current virtual time.
func (v *VCtx) ExpireNow() { v.finish(context.DeadlineExceeded) }

func (v *VCtx) VirtualDeadline() time.Time { return v.deadline }

// OnTimeout, when set, is called synchronously for every WithTimeout /
// WithDeadline context the code under test creates; the harness decides there
// what ends it (v.Expire(), cancelling the parent, or nothing yet).
var OnTimeout func(v *VCtx)

func WithTimeout(parent Context, d time.Duration) (Context, CancelFunc) {
	return WithDeadline2(parent, vtime.Now().Add(d), d)
}

func WithDeadline(parent Context, t time.Time) (Context, CancelFunc) {
	return WithDeadline2(parent, t, t.Sub(vtime.Now()))
}

func WithDeadline2(parent Context, t time.Time, d time.Duration) (Context, CancelFunc) {
	v := &VCtx{parent: parent, done: make(chan struct{}), deadline: t, D: d}
	if err := parent.Err(); err != nil {
		v.finish(err)
	} else {
		v.stop = context.AfterFunc(parent, func() { v.finish(parent.Err()) })
	}
	if OnTimeout != nil && v.Err() == nil {
		OnTimeout(v)
	}
	return v, func() {
		if v.stop != nil {
			v.stop()
		}
		v.finish(context.Canceled)
	}
}

package vos

import (
	"io"
	"strings"
	"syscall"
	"testing"
)

func TestAppendAndPositioned(t *testing.T) {
	Reset()
	Mkdir("/vfs/d")
	a, err := OpenFile("/vfs/d/f", O_CREATE|O_APPEND|O_WRONLY, 0600)
	if err != nil {
		t.Fatal(err)
	}
	b, _ := OpenFile("/vfs/d/f", O_CREATE|O_RDWR, 0600)
	a.Write([]byte("one\n"))
	end, _ := b.Seek(0, io.SeekEnd)
	a.Write([]byte("two\n"))
	if _, err := b.WriteAt([]byte("3333\n"), end); err != nil {
		t.Fatal(err)
	}
	if got := string(Snapshot("/vfs/d/f")); got != "one\n3333\n" {
		t.Fatalf("positioned write: %q", got)
	}
	if _, err := a.WriteAt([]byte("x"), 0); err == nil || !strings.Contains(err.Error(), "O_APPEND") {
		t.Fatalf("WriteAt on O_APPEND: %v", err)
	}
	var last [1]byte
	if _, err := b.ReadAt(last[:], 8); err != nil || last[0] != '\n' {
		t.Fatalf("ReadAt: %v %q", err, last)
	}
	if _, err := b.ReadAt(last[:], 9); err != io.EOF {
		t.Fatalf("ReadAt at end: %v", err)
	}
	st, err := b.Stat()
	if err != nil || st.Size() != 9 || st.Mode() != 0600 || st.Name() != "f" {
		t.Fatalf("Stat: %v %+v", err, st)
	}
	if err := b.Truncate(4); err != nil {
		t.Fatal(err)
	}
	if st, _ := Stat("/vfs/d/f"); st.Size() != 4 {
		t.Fatalf("after truncate: %d", st.Size())
	}
}

func TestShortWriteLoop(t *testing.T) {
	Reset()
	Mkdir("/vfs/d")
	calls := 0
	Fault = func(op, path string, n int) (syscall.Errno, int) {
		if op != "write" {
			return 0, 0
		}
		calls++
		switch calls {
		case 1:
			return ShortOK, 3
		case 2:
			return syscall.ENOSPC, 0
		}
		return 0, 0
	}
	f, _ := OpenFile("/vfs/d/f", O_CREATE|O_APPEND|O_WRONLY, 0600)
	n, err := f.Write([]byte("abcdefgh"))
	if n != 3 || err == nil || calls != 2 {
		t.Fatalf("n=%d err=%v calls=%d", n, err, calls)
	}
	// a short count followed by success: the whole buffer arrives in two calls
	calls = 10
	Fault = func(op, path string, n int) (syscall.Errno, int) {
		if op == "write" {
			calls++
			if calls == 11 {
				return ShortOK, 2
			}
		}
		return 0, 0
	}
	n, err = f.Write([]byte("XYZ\n"))
	if n != 4 || err != nil || calls != 12 || string(Snapshot("/vfs/d/f")) != "abcXYZ\n" {
		t.Fatalf("n=%d err=%v calls=%d %q", n, err, calls, Snapshot("/vfs/d/f"))
	}
}

func TestRawWrite(t *testing.T) {
	Reset()
	Mkdir("/vfs/d")
	f, _ := OpenFile("/vfs/d/f", O_CREATE|O_APPEND|O_WRONLY, 0600)
	f.Write([]byte("first\n"))
	raw := func(blob []byte) (int, error) {
		conn, err := f.SyscallConn()
		if err != nil {
			t.Fatal(err)
		}
		var n int
		var werr error
		if err := conn.Write(func(fd uintptr) bool {
			n, werr = syscall.Write(int(fd), blob)
			return true
		}); err != nil {
			t.Fatal(err)
		}
		return n, werr
	}
	if n, err := raw([]byte("second\n")); n != 7 || err != nil {
		t.Fatalf("unlimited raw write: %d %v", n, err)
	}
	// another descriptor appends in between
	g, _ := OpenFile("/vfs/d/f", O_APPEND|O_WRONLY, 0)
	g.Write([]byte("third\n"))
	Fault = func(op, path string, n int) (syscall.Errno, int) {
		if op == "write" && n == -1 {
			return ShortOK, 4
		}
		return 0, 0
	}
	if n, err := raw([]byte("fourth\n")); n != 4 || err != nil {
		t.Fatalf("limited raw write: %d %v", n, err)
	}
	if RawLimited != 1 || RawLimitHit != 1 {
		t.Fatalf("counters %d %d", RawLimited, RawLimitHit)
	}
	Fault = func(op, path string, n int) (syscall.Errno, int) {
		if op == "write" && n == -1 {
			return syscall.ENOSPC, 0
		}
		return 0, 0
	}
	if n, err := raw([]byte("fifth\n")); n > 0 || err != syscall.EFBIG {
		t.Fatalf("raw write with nothing left: %d %v", n, err)
	}
	Fault = nil
	if n, err := raw([]byte("\nsixth\n")); n != 7 || err != nil {
		t.Fatalf("limit not lifted: %d %v", n, err)
	}
	if got := string(Snapshot("/vfs/d/f")); got != "first\nsecond\nthird\nfour\nsixth\n" {
		t.Fatalf("file: %q", got)
	}
	// positioned descriptor: raw writes go to its own offset
	h, _ := OpenFile("/vfs/d/f", O_RDWR, 0)
	h.Seek(6, io.SeekStart)
	conn, _ := h.SyscallConn()
	conn.Write(func(fd uintptr) bool { syscall.Write(int(fd), []byte("SECOND")); return true })
	if off, _ := h.Seek(0, io.SeekCurrent); off != 12 {
		t.Fatalf("offset after raw write: %d", off)
	}
	if got := string(Snapshot("/vfs/d/f")); !strings.HasPrefix(got, "first\nSECOND\nthird") {
		t.Fatalf("file: %q", got)
	}
	f.Close()
	g.Close()
	h.Close()
}

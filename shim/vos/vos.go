// Package vos is a drop-in for package os in lib/audit (through the overlay):
// paths under /vfs/ live in an in-memory file system with per-descriptor
// offsets and O_APPEND semantics, every operation on them is a scheduling
// point and may be failed by the harness; everything else goes to the real os.
//
// A virtual descriptor emulates *os.File at the level of the system calls
// behind it: Write / WriteAt / Read / ReadAt loop over single write(2) /
// pwrite(2) / read(2) / pread(2) calls the way the real methods do, and each
// such call is one scheduling point and one question to the harness (Fault).
// The environment may answer a write with an error, with "k bytes, then the
// error" or (ShortOK) with a short count and no error - what the kernel does
// when a size limit or the end of the device is reached in the middle of a
// write.
//
// Code that leaves the os.File API (SyscallConn, Fd) gets a descriptor of a REAL
// (unlinked, memory-backed) file that mirrors the virtual one: the bytes and
// the descriptor's offset are copied out before and copied back after every
// operation, so raw syscall.Write / Pwrite / Fstat / Lseek on the descriptor
// number behave as on the virtual file. A fault on such a raw write is applied
// by the real kernel: the harness's byte budget becomes RLIMIT_FSIZE (write
// position + budget) for the duration of the callback, so the system call
// itself returns the short count (or EFBIG once nothing fits).
package vos

import (
	"errors"
	"fmt"
	"io"
	"io/fs"
	"os"
	"os/signal"
	"strings"
	"sync"
	"syscall"
	"time"

	"verif/mc"
)

const (
	O_RDONLY = os.O_RDONLY
	O_WRONLY = os.O_WRONLY
	O_RDWR   = os.O_RDWR
	O_APPEND = os.O_APPEND
	O_CREATE = os.O_CREATE
	O_EXCL   = os.O_EXCL
	O_SYNC   = os.O_SYNC
	O_TRUNC  = os.O_TRUNC

	ModePerm       = os.ModePerm
	ModeDir        = os.ModeDir
	ModeAppend     = os.ModeAppend
	ModeExclusive  = os.ModeExclusive
	ModeTemporary  = os.ModeTemporary
	ModeSymlink    = os.ModeSymlink
	ModeDevice     = os.ModeDevice
	ModeNamedPipe  = os.ModeNamedPipe
	ModeSocket     = os.ModeSocket
	ModeSetuid     = os.ModeSetuid
	ModeSetgid     = os.ModeSetgid
	ModeCharDevice = os.ModeCharDevice
	ModeSticky     = os.ModeSticky
	ModeIrregular  = os.ModeIrregular
	ModeType       = os.ModeType

	PathSeparator     = os.PathSeparator
	PathListSeparator = os.PathListSeparator
	DevNull           = os.DevNull

	SEEK_SET = 0
	SEEK_CUR = 1
	SEEK_END = 2
)

type (
	FileMode     = os.FileMode
	FileInfo     = os.FileInfo
	PathError    = os.PathError
	LinkError    = os.LinkError
	SyscallError = os.SyscallError
	DirEntry     = os.DirEntry
	Signal       = os.Signal
	Process      = os.Process
	ProcAttr     = os.ProcAttr
)

var (
	ErrNotExist         = os.ErrNotExist
	ErrExist            = os.ErrExist
	ErrPermission       = os.ErrPermission
	ErrClosed           = os.ErrClosed
	ErrInvalid          = os.ErrInvalid
	ErrNoDeadline       = os.ErrNoDeadline
	ErrDeadlineExceeded = os.ErrDeadlineExceeded
	ErrProcessDone      = os.ErrProcessDone

	Stdin  = os.Stdin
	Stdout = os.Stdout
	Stderr = os.Stderr

	Interrupt = os.Interrupt
	Kill      = os.Kill

	Hostname        = os.Hostname
	Getenv          = os.Getenv
	LookupEnv       = os.LookupEnv
	Setenv          = os.Setenv
	Unsetenv        = os.Unsetenv
	ExpandEnv       = os.ExpandEnv
	Expand          = os.Expand
	Getpid          = os.Getpid
	Getppid         = os.Getppid
	Getuid          = os.Getuid
	Geteuid         = os.Geteuid
	Getgid          = os.Getgid
	Getegid         = os.Getegid
	Getwd           = os.Getwd
	Getpagesize     = os.Getpagesize
	UserHomeDir     = os.UserHomeDir
	UserCacheDir    = os.UserCacheDir
	UserConfigDir   = os.UserConfigDir
	IsNotExist      = os.IsNotExist
	IsExist         = os.IsExist
	IsPermission    = os.IsPermission
	IsTimeout       = os.IsTimeout
	IsPathSeparator = os.IsPathSeparator
	NewSyscallError = os.NewSyscallError
	SameFile        = os.SameFile
	Exit            = os.Exit
	Executable      = os.Executable
	TempDir         = os.TempDir
	MkdirTemp       = os.MkdirTemp
	RemoveAll       = os.RemoveAll
	Readlink        = os.Readlink
	Symlink         = os.Symlink
	Link            = os.Link
	ReadDir         = os.ReadDir
	Chown           = os.Chown
	Chtimes         = os.Chtimes
	Environ         = os.Environ
	Args            = os.Args
)

const Prefix = "/vfs/"

// ShortOK is an answer of the environment to a write (returned as the errno of
// Fault together with a byte count): the kernel takes only that many bytes and
// reports the short count WITHOUT an error - what write(2) does when a file
// size limit, a quota or the end of the device is reached in the middle of the
// buffer. The error, if any, comes with the next write.
const ShortOK = syscall.Errno(0x7fff0001)

type memFile struct {
	data  []byte
	mode  FileMode
	mtime time.Time
	// back: the real (unlinked) file that mirrors this one, once some code asked
	// for a descriptor number
	back *os.File
}

var (
	mu    sync.Mutex
	files = map[string]*memFile{}
	dirs  = map[string]bool{"/vfs": true}
	all   []*memFile // every file created since Reset (named or not)
	// Fault decides, per system call on a virtual path, what the environment
	// answers (errno 0 = proceed). op is open | write | close | sync and, since
	// the descriptor emulates all of *os.File, writeat | read | readat | seek |
	// stat | truncate | chmod | mkdir | remove | rename. n is the number of bytes
	// asked for (-1 when the call is made by the program itself on a raw
	// descriptor and cannot be known beforehand). For write / writeat: errno != 0
	// with short = k means k bytes reach the file and the call then fails;
	// errno == ShortOK means k bytes reach the file and the call reports k without
	// an error. For read / readat ShortOK limits the bytes returned.
	Fault func(op, path string, n int) (errno syscall.Errno, short int)
	// OpLog records every virtual operation.
	OpLog []string
	// RawLimited counts raw writes (through SyscallConn) on which a byte budget
	// was imposed; RawLimitHit those on which the file grew by the whole budget,
	// i.e. the limit was really reached.
	RawLimited, RawLimitHit int
)

// Reset clears the virtual file system.
func Reset() {
	mu.Lock()
	for _, m := range all {
		if m.back != nil {
			m.back.Close()
			m.back = nil
		}
	}
	all = nil
	files = map[string]*memFile{}
	dirs = map[string]bool{"/vfs": true}
	OpLog = nil
	Fault = nil
	RawLimited, RawLimitHit = 0, 0
	mu.Unlock()
}

func Mkdir(path string) { mu.Lock(); dirs[strings.TrimSuffix(path, "/")] = true; mu.Unlock() }

// ---- what the environment does to the virtual file system behind the program's back ----

// Unlink removes a name; descriptors that are open on the file keep writing to
// the now nameless file, as on a real file system.
func Unlink(path string) { mu.Lock(); delete(files, path); mu.Unlock() }

// Rmdir removes a directory name and every file name below it.
func Rmdir(path string) {
	mu.Lock()
	path = strings.TrimSuffix(path, "/")
	delete(dirs, path)
	for n := range files {
		if strings.HasPrefix(n, path+"/") {
			delete(files, n)
		}
	}
	mu.Unlock()
}

// RenameFile moves a name (log rotation); open descriptors follow the file.
func RenameFile(from, to string) {
	mu.Lock()
	if f := files[from]; f != nil {
		files[to] = f
		delete(files, from)
	}
	mu.Unlock()
}

// Snapshot returns the bytes of a virtual file (nil if absent).
func Snapshot(path string) []byte {
	mu.Lock()
	defer mu.Unlock()
	f := files[path]
	if f == nil {
		return nil
	}
	f.pull()
	return append([]byte{}, f.data...)
}

func point(label string) {
	if t := mc.Active().Me(); t != nil {
		t.Point(label)
	}
}

func virtual(name string) bool { return strings.HasPrefix(name, Prefix) }

// ask puts one system call to the harness (mu held).
func ask(op, path string, n int) (syscall.Errno, int) {
	OpLog = append(OpLog, op+" "+path)
	if Fault == nil {
		return 0, 0
	}
	return Fault(op, path, n)
}

// ---- the real mirror of a virtual file ----

func scratchDir() string {
	if st, err := os.Stat("/dev/shm"); err == nil && st.IsDir() {
		return "/dev/shm"
	}
	return ""
}

// materialize creates the real mirror of m (mu held).
func (m *memFile) materialize() {
	if m.back != nil {
		return
	}
	f, err := os.CreateTemp(scratchDir(), "vos-mirror-")
	if err != nil {
		panic("vos: cannot create the real mirror of a virtual file: " + err.Error())
	}
	os.Remove(f.Name()) // lives as long as descriptors are open on it
	m.back = f
	m.push()
}

// push copies the virtual bytes into the mirror, pull copies them back.
func (m *memFile) push() {
	if m.back == nil {
		return
	}
	if err := m.back.Truncate(0); err != nil {
		panic("vos: mirror: " + err.Error())
	}
	if _, err := m.back.WriteAt(m.data, 0); err != nil {
		panic("vos: mirror: " + err.Error())
	}
}

const mirrorCap = 64 << 20

func (m *memFile) pull() {
	if m.back == nil {
		return
	}
	st, err := m.back.Stat()
	if err != nil {
		panic("vos: mirror: " + err.Error())
	}
	size := st.Size()
	if size > mirrorCap {
		// whatever wrote that much through the raw descriptor: keep the harness alive
		size = mirrorCap
	}
	buf := make([]byte, size)
	if _, err := io.ReadFull(io.NewSectionReader(m.back, 0, size), buf); err != nil {
		panic("vos: mirror: " + err.Error())
	}
	m.data = buf
}

// File is either a virtual descriptor or a real *os.File.
type File struct {
	real   *os.File
	path   string
	f      *memFile
	flag   int
	off    int64
	closed bool
	// rfd: this descriptor's own open file description on the mirror
	rfd *os.File
}

// realFD opens this descriptor's real counterpart (mu held).
func (f *File) realFD() *os.File {
	f.f.materialize()
	if f.rfd == nil {
		flag := f.flag & (O_RDONLY | O_WRONLY | O_RDWR | O_APPEND | O_SYNC)
		r, err := os.OpenFile(fmt.Sprintf("/proc/self/fd/%d", f.f.back.Fd()), flag, 0)
		if err != nil {
			panic("vos: cannot open a descriptor on the mirror: " + err.Error())
		}
		f.rfd = r
	}
	return f.rfd
}

func (f *File) pushOff() {
	if f.rfd != nil {
		if _, err := f.rfd.Seek(f.off, io.SeekStart); err != nil {
			panic("vos: mirror: " + err.Error())
		}
	}
}

func (f *File) pullOff() {
	if f.rfd != nil {
		o, err := f.rfd.Seek(0, io.SeekCurrent)
		if err != nil {
			panic("vos: mirror: " + err.Error())
		}
		f.off = o
	}
}

func NewFile(fd uintptr, name string) *File {
	rf := os.NewFile(fd, name)
	if rf == nil {
		return nil
	}
	return &File{real: rf}
}

func Create(name string) (*File, error) {
	return OpenFile(name, O_RDWR|O_CREATE|O_TRUNC, 0666)
}

func Open(name string) (*File, error) { return OpenFile(name, O_RDONLY, 0) }

func CreateTemp(dir, pattern string) (*File, error) {
	if !virtual(dir + "/") {
		rf, err := os.CreateTemp(dir, pattern)
		if err != nil {
			return nil, err
		}
		return &File{real: rf}, nil
	}
	prefix, suffix := pattern, ""
	if i := strings.LastIndex(pattern, "*"); i >= 0 {
		prefix, suffix = pattern[:i], pattern[i+1:]
	}
	for i := 0; ; i++ {
		name := fmt.Sprintf("%s/%s%09d%s", strings.TrimSuffix(dir, "/"), prefix, i, suffix)
		f, err := OpenFile(name, O_RDWR|O_CREATE|O_EXCL, 0600)
		if err != nil && errors.Is(err, syscall.EEXIST) && i < 10000 {
			continue
		}
		return f, err
	}
}

func OpenFile(name string, flag int, perm FileMode) (*File, error) {
	if !virtual(name) {
		rf, err := os.OpenFile(name, flag, perm)
		if err != nil {
			return nil, err
		}
		return &File{real: rf}, nil
	}
	point("open")
	mu.Lock()
	defer mu.Unlock()
	if errno, _ := ask("open", name, 0); errno != 0 && errno != ShortOK {
		return nil, &PathError{Op: "open", Path: name, Err: errno}
	}
	dir := name[:strings.LastIndex(name, "/")]
	if !dirs[dir] {
		return nil, &PathError{Op: "open", Path: name, Err: syscall.ENOENT}
	}
	if dirs[name] {
		return nil, &PathError{Op: "open", Path: name, Err: syscall.EISDIR}
	}
	f := files[name]
	if f == nil {
		if flag&O_CREATE == 0 {
			return nil, &PathError{Op: "open", Path: name, Err: syscall.ENOENT}
		}
		f = &memFile{mode: perm & ModePerm, mtime: time.Now()}
		files[name] = f
		all = append(all, f)
	} else if flag&O_EXCL != 0 && flag&O_CREATE != 0 {
		return nil, &PathError{Op: "open", Path: name, Err: syscall.EEXIST}
	}
	if flag&O_TRUNC != 0 {
		f.pull()
		f.data = nil
		f.push()
	}
	return &File{path: name, f: f, flag: flag}, nil
}

func (f *File) Name() string {
	if f.real != nil {
		return f.real.Name()
	}
	return f.path
}

func (f *File) writable() bool { return f.flag&(O_WRONLY|O_RDWR) != 0 }
func (f *File) readable() bool { return f.flag&O_WRONLY == 0 }

// sysWrite is one write(2) (at < 0: at the descriptor's position, or at the end
// with O_APPEND) or one pwrite(2).
func (f *File) sysWrite(op string, b []byte, at int64) (int, error) {
	point(op)
	mu.Lock()
	defer mu.Unlock()
	if f.closed {
		OpLog = append(OpLog, op+" "+f.path)
		return 0, os.ErrClosed
	}
	if !f.writable() {
		OpLog = append(OpLog, op+" "+f.path)
		return 0, &PathError{Op: op, Path: f.path, Err: syscall.EBADF}
	}
	n := len(b)
	var ferr error
	if errno, short := ask(op, f.path, len(b)); errno != 0 {
		n = short
		if n > len(b) {
			n = len(b)
		}
		if n < 0 {
			n = 0
		}
		if errno != ShortOK {
			ferr = &PathError{Op: op, Path: f.path, Err: errno}
		}
	}
	f.f.pull()
	f.pullOff()
	pos := f.off
	switch {
	case at >= 0:
		pos = at
	case f.flag&O_APPEND != 0:
		// the kernel positions and writes atomically
		pos = int64(len(f.f.data))
	}
	// without O_APPEND the descriptor's own offset decides: concurrent writers
	// overwrite each other
	if n > 0 {
		end := pos + int64(n)
		if int64(len(f.f.data)) < end {
			f.f.data = append(f.f.data, make([]byte, end-int64(len(f.f.data)))...)
		}
		copy(f.f.data[pos:end], b[:n])
		f.f.mtime = time.Now()
	}
	if at < 0 {
		f.off = pos + int64(n)
	}
	f.f.push()
	f.pushOff()
	return n, ferr
}

// Write loops over write(2) like (*os.File).Write: a short count without an
// error is followed by another call for the remainder.
func (f *File) Write(b []byte) (int, error) {
	if f.real != nil {
		return f.real.Write(b)
	}
	nn := 0
	for {
		n, err := f.sysWrite("write", b[nn:], -1)
		nn += n
		if nn == len(b) || err != nil {
			return nn, err
		}
		if n == 0 {
			return nn, io.ErrUnexpectedEOF
		}
	}
}

func (f *File) WriteString(s string) (int, error) { return f.Write([]byte(s)) }

// WriteAt loops over pwrite(2) like (*os.File).WriteAt.
func (f *File) WriteAt(b []byte, off int64) (int, error) {
	if f.real != nil {
		return f.real.WriteAt(b, off)
	}
	if f.flag&O_APPEND != 0 {
		return 0, errors.New("os: invalid use of WriteAt on file opened with O_APPEND")
	}
	if off < 0 {
		return 0, &PathError{Op: "writeat", Path: f.path, Err: errors.New("negative offset")}
	}
	nn := 0
	for {
		n, err := f.sysWrite("writeat", b[nn:], off+int64(nn))
		nn += n
		if nn == len(b) || err != nil {
			return nn, err
		}
		if n == 0 {
			return nn, io.ErrUnexpectedEOF
		}
	}
}

// sysRead is one read(2) (at < 0) or pread(2).
func (f *File) sysRead(op string, b []byte, at int64) (int, error) {
	point(op)
	mu.Lock()
	defer mu.Unlock()
	if f.closed {
		OpLog = append(OpLog, op+" "+f.path)
		return 0, os.ErrClosed
	}
	if !f.readable() {
		OpLog = append(OpLog, op+" "+f.path)
		return 0, &PathError{Op: op, Path: f.path, Err: syscall.EBADF}
	}
	max := len(b)
	if errno, short := ask(op, f.path, len(b)); errno == ShortOK {
		if short >= 0 && short < max {
			max = short
		}
	} else if errno != 0 {
		return 0, &PathError{Op: op, Path: f.path, Err: errno}
	}
	f.f.pull()
	f.pullOff()
	pos := f.off
	if at >= 0 {
		pos = at
	}
	n := 0
	if pos < int64(len(f.f.data)) {
		n = copy(b[:max], f.f.data[pos:])
	}
	if at < 0 {
		f.off = pos + int64(n)
		f.pushOff()
	}
	return n, nil
}

func (f *File) Read(b []byte) (int, error) {
	if f.real != nil {
		return f.real.Read(b)
	}
	n, err := f.sysRead("read", b, -1)
	if n == 0 && err == nil && len(b) > 0 {
		return 0, io.EOF
	}
	return n, err
}

// ReadAt loops over pread(2) until the buffer is full, like (*os.File).ReadAt.
func (f *File) ReadAt(b []byte, off int64) (int, error) {
	if f.real != nil {
		return f.real.ReadAt(b, off)
	}
	if off < 0 {
		return 0, &PathError{Op: "readat", Path: f.path, Err: errors.New("negative offset")}
	}
	nn := 0
	for nn < len(b) {
		n, err := f.sysRead("readat", b[nn:], off+int64(nn))
		nn += n
		if err != nil {
			return nn, err
		}
		if n == 0 {
			return nn, io.EOF
		}
	}
	return nn, nil
}

func (f *File) Seek(off int64, whence int) (int64, error) {
	if f.real != nil {
		return f.real.Seek(off, whence)
	}
	point("seek")
	mu.Lock()
	defer mu.Unlock()
	if f.closed {
		OpLog = append(OpLog, "seek "+f.path)
		return 0, os.ErrClosed
	}
	if errno, _ := ask("seek", f.path, 0); errno != 0 && errno != ShortOK {
		return 0, &PathError{Op: "seek", Path: f.path, Err: errno}
	}
	f.f.pull()
	f.pullOff()
	pos := f.off
	switch whence {
	case io.SeekStart:
		pos = off
	case io.SeekCurrent:
		pos += off
	case io.SeekEnd:
		pos = int64(len(f.f.data)) + off
	default:
		return 0, &PathError{Op: "seek", Path: f.path, Err: syscall.EINVAL}
	}
	if pos < 0 {
		return 0, &PathError{Op: "seek", Path: f.path, Err: syscall.EINVAL}
	}
	f.off = pos
	f.pushOff()
	return f.off, nil
}

type memInfo struct {
	name  string
	size  int64
	mode  FileMode
	mtime time.Time
}

func (i memInfo) Name() string       { return i.name }
func (i memInfo) Size() int64        { return i.size }
func (i memInfo) Mode() FileMode     { return i.mode }
func (i memInfo) ModTime() time.Time { return i.mtime }
func (i memInfo) IsDir() bool        { return i.mode.IsDir() }
func (i memInfo) Sys() any           { return nil }

func base(path string) string {
	path = strings.TrimSuffix(path, "/")
	return path[strings.LastIndex(path, "/")+1:]
}

func (m *memFile) info(path string) FileInfo {
	m.pull()
	return memInfo{base(path), int64(len(m.data)), m.mode, m.mtime}
}

func (f *File) Stat() (FileInfo, error) {
	if f.real != nil {
		return f.real.Stat()
	}
	point("stat")
	mu.Lock()
	defer mu.Unlock()
	if f.closed {
		OpLog = append(OpLog, "stat "+f.path)
		return nil, os.ErrClosed
	}
	if errno, _ := ask("stat", f.path, 0); errno != 0 && errno != ShortOK {
		return nil, &PathError{Op: "stat", Path: f.path, Err: errno}
	}
	return f.f.info(f.path), nil
}

func (f *File) Truncate(size int64) error {
	if f.real != nil {
		return f.real.Truncate(size)
	}
	point("truncate")
	mu.Lock()
	defer mu.Unlock()
	if f.closed {
		OpLog = append(OpLog, "truncate "+f.path)
		return os.ErrClosed
	}
	if !f.writable() || size < 0 {
		OpLog = append(OpLog, "truncate "+f.path)
		return &PathError{Op: "truncate", Path: f.path, Err: syscall.EINVAL}
	}
	if errno, _ := ask("truncate", f.path, 0); errno != 0 && errno != ShortOK {
		return &PathError{Op: "truncate", Path: f.path, Err: errno}
	}
	f.f.pull()
	f.f.resize(size)
	f.f.push()
	return nil
}

func (m *memFile) resize(size int64) {
	if size > mirrorCap {
		size = mirrorCap
	}
	if size <= int64(len(m.data)) {
		m.data = m.data[:size]
	} else {
		m.data = append(m.data, make([]byte, size-int64(len(m.data)))...)
	}
	m.mtime = time.Now()
}

func (f *File) Chmod(mode FileMode) error {
	if f.real != nil {
		return f.real.Chmod(mode)
	}
	point("chmod")
	mu.Lock()
	defer mu.Unlock()
	if f.closed {
		OpLog = append(OpLog, "chmod "+f.path)
		return os.ErrClosed
	}
	if errno, _ := ask("chmod", f.path, 0); errno != 0 && errno != ShortOK {
		return &PathError{Op: "chmod", Path: f.path, Err: errno}
	}
	f.f.mode = mode & ModePerm
	return nil
}

func (f *File) Chown(uid, gid int) error {
	if f.real != nil {
		return f.real.Chown(uid, gid)
	}
	return nil
}

func (f *File) Sync() error {
	if f.real != nil {
		return f.real.Sync()
	}
	point("sync")
	mu.Lock()
	defer mu.Unlock()
	if f.closed {
		OpLog = append(OpLog, "sync "+f.path)
		return os.ErrClosed
	}
	if errno, _ := ask("sync", f.path, 0); errno != 0 && errno != ShortOK {
		return &PathError{Op: "sync", Path: f.path, Err: errno}
	}
	return nil
}

func (f *File) SetDeadline(t time.Time) error {
	if f.real != nil {
		return f.real.SetDeadline(t)
	}
	return os.ErrNoDeadline
}
func (f *File) SetReadDeadline(t time.Time) error {
	if f.real != nil {
		return f.real.SetReadDeadline(t)
	}
	return os.ErrNoDeadline
}
func (f *File) SetWriteDeadline(t time.Time) error {
	if f.real != nil {
		return f.real.SetWriteDeadline(t)
	}
	return os.ErrNoDeadline
}

// Fd returns a descriptor number of the real mirror: raw system calls on it see
// and change what the virtual file holds (the mirror is read back before the
// next virtual operation and before Snapshot).
func (f *File) Fd() uintptr {
	if f.real != nil {
		return f.real.Fd()
	}
	mu.Lock()
	defer mu.Unlock()
	if f.closed {
		return ^uintptr(0)
	}
	OpLog = append(OpLog, "fd "+f.path)
	r := f.realFD()
	f.pushOff()
	return r.Fd()
}

// rawConn is the syscall.RawConn of a virtual descriptor.
type rawConn struct{ f *File }

func (f *File) SyscallConn() (syscall.RawConn, error) {
	if f.real != nil {
		return f.real.SyscallConn()
	}
	mu.Lock()
	defer mu.Unlock()
	if f.closed {
		return nil, os.ErrClosed
	}
	return rawConn{f}, nil
}

var ignoreXFSZ sync.Once

// do runs one callback on the real descriptor. For op write the harness is
// asked first; a byte budget (ShortOK, or "k bytes then an error") becomes the
// process's file size limit while the callback runs, so that the program's own
// write(2) is cut short by the kernel. What the kernel reports once nothing fits
// any more is EFBIG, whatever errno the harness named.
func (c rawConn) do(op string, call func(rc syscall.RawConn) error) error {
	f := c.f
	point(op)
	mu.Lock()
	defer mu.Unlock()
	if f.closed {
		OpLog = append(OpLog, op+" "+f.path)
		return os.ErrClosed
	}
	budget := int64(-1)
	switch op {
	case "write":
		if errno, short := ask(op, f.path, -1); errno != 0 {
			budget = int64(short)
			if budget < 0 {
				budget = 0
			}
		}
	case "read":
		if errno, _ := ask(op, f.path, -1); errno != 0 && errno != ShortOK {
			return &PathError{Op: op, Path: f.path, Err: errno}
		}
	default:
		OpLog = append(OpLog, op+" "+f.path)
	}
	f.f.pull()
	f.pullOff()
	r := f.realFD()
	f.f.push()
	f.pushOff()
	rc, err := r.SyscallConn()
	if err != nil {
		return err
	}
	before := int64(len(f.f.data))
	if budget >= 0 {
		pos := f.off
		if f.flag&O_APPEND != 0 {
			pos = before
		}
		RawLimited++
		err = withFileSizeLimit(pos+budget, func() error { return call(rc) })
	} else {
		err = call(rc)
	}
	f.f.pull()
	f.pullOff()
	if budget >= 0 {
		grew := int64(len(f.f.data)) - before
		if grew >= budget {
			RawLimitHit++
		}
		OpLog = append(OpLog, fmt.Sprintf("rawwrite %s budget=%d grew=%d", f.path, budget, grew))
	}
	if int64(len(f.f.data)) != before {
		f.f.mtime = time.Now()
	}
	return err
}

func withFileSizeLimit(limit int64, fn func() error) error {
	ignoreXFSZ.Do(func() { signal.Ignore(syscall.SIGXFSZ) })
	var old syscall.Rlimit
	if err := syscall.Getrlimit(syscall.RLIMIT_FSIZE, &old); err != nil {
		panic("vos: getrlimit: " + err.Error())
	}
	lim := old
	if uint64(limit) < lim.Cur {
		lim.Cur = uint64(limit)
	}
	if err := syscall.Setrlimit(syscall.RLIMIT_FSIZE, &lim); err != nil {
		panic("vos: cannot impose a file size limit: " + err.Error())
	}
	defer func() {
		if err := syscall.Setrlimit(syscall.RLIMIT_FSIZE, &old); err != nil {
			panic("vos: cannot lift the file size limit: " + err.Error())
		}
	}()
	return fn()
}

func (c rawConn) Control(fn func(fd uintptr)) error {
	return c.do("control", func(rc syscall.RawConn) error { return rc.Control(fn) })
}

func (c rawConn) Read(fn func(fd uintptr) bool) error {
	return c.do("read", func(rc syscall.RawConn) error { return rc.Read(fn) })
}

func (c rawConn) Write(fn func(fd uintptr) bool) error {
	return c.do("write", func(rc syscall.RawConn) error { return rc.Write(fn) })
}

func (f *File) Close() error {
	if f.real != nil {
		return f.real.Close()
	}
	point("close")
	mu.Lock()
	defer mu.Unlock()
	if f.closed {
		OpLog = append(OpLog, "close "+f.path)
		return os.ErrClosed
	}
	f.f.pull()
	f.closed = true
	if f.rfd != nil {
		f.rfd.Close()
		f.rfd = nil
	}
	if errno, _ := ask("close", f.path, 0); errno != 0 && errno != ShortOK {
		return &PathError{Op: "close", Path: f.path, Err: errno}
	}
	return nil
}

// ---- package-level functions on paths ----

func lookup(op, name string) (*memFile, bool, error) {
	if dirs[strings.TrimSuffix(name, "/")] {
		return nil, true, nil
	}
	if m := files[name]; m != nil {
		return m, false, nil
	}
	return nil, false, &PathError{Op: op, Path: name, Err: syscall.ENOENT}
}

func Stat(name string) (FileInfo, error) {
	if !virtual(name) && name != strings.TrimSuffix(Prefix, "/") {
		return os.Stat(name)
	}
	point("stat")
	mu.Lock()
	defer mu.Unlock()
	if errno, _ := ask("stat", name, 0); errno != 0 && errno != ShortOK {
		return nil, &PathError{Op: "stat", Path: name, Err: errno}
	}
	m, isDir, err := lookup("stat", name)
	if err != nil {
		return nil, err
	}
	if isDir {
		return memInfo{base(name), 0, ModeDir | 0755, time.Time{}}, nil
	}
	return m.info(name), nil
}

func Lstat(name string) (FileInfo, error) {
	if !virtual(name) {
		return os.Lstat(name)
	}
	return Stat(name)
}

func ReadFile(name string) ([]byte, error) {
	if !virtual(name) {
		return os.ReadFile(name)
	}
	f, err := Open(name)
	if err != nil {
		return nil, err
	}
	defer f.Close()
	var out []byte
	buf := make([]byte, 4096)
	for {
		n, err := f.Read(buf)
		out = append(out, buf[:n]...)
		if err == io.EOF {
			return out, nil
		}
		if err != nil {
			return out, err
		}
	}
}

func WriteFile(name string, data []byte, perm FileMode) error {
	f, err := OpenFile(name, O_WRONLY|O_CREATE|O_TRUNC, perm)
	if err != nil {
		return err
	}
	_, err = f.Write(data)
	if cerr := f.Close(); err == nil {
		err = cerr
	}
	return err
}

func Truncate(name string, size int64) error {
	if !virtual(name) {
		return os.Truncate(name, size)
	}
	f, err := OpenFile(name, O_WRONLY, 0)
	if err != nil {
		return err
	}
	err = f.Truncate(size)
	if cerr := f.Close(); err == nil {
		err = cerr
	}
	return err
}

func Chmod(name string, mode FileMode) error {
	if !virtual(name) {
		return os.Chmod(name, mode)
	}
	point("chmod")
	mu.Lock()
	defer mu.Unlock()
	if errno, _ := ask("chmod", name, 0); errno != 0 && errno != ShortOK {
		return &PathError{Op: "chmod", Path: name, Err: errno}
	}
	m, isDir, err := lookup("chmod", name)
	if err != nil || isDir {
		return err
	}
	m.mode = mode & ModePerm
	return nil
}

func Remove(name string) error {
	if !virtual(name) {
		return os.Remove(name)
	}
	point("remove")
	mu.Lock()
	defer mu.Unlock()
	if errno, _ := ask("remove", name, 0); errno != 0 && errno != ShortOK {
		return &PathError{Op: "remove", Path: name, Err: errno}
	}
	_, isDir, err := lookup("remove", name)
	if err != nil {
		return err
	}
	if isDir {
		d := strings.TrimSuffix(name, "/")
		for n := range files {
			if strings.HasPrefix(n, d+"/") {
				return &PathError{Op: "remove", Path: name, Err: syscall.ENOTEMPTY}
			}
		}
		for n := range dirs {
			if strings.HasPrefix(n, d+"/") {
				return &PathError{Op: "remove", Path: name, Err: syscall.ENOTEMPTY}
			}
		}
		delete(dirs, d)
		return nil
	}
	delete(files, name)
	return nil
}

func Rename(from, to string) error {
	if !virtual(from) && !virtual(to) {
		return os.Rename(from, to)
	}
	if !virtual(from) || !virtual(to) {
		return &LinkError{Op: "rename", Old: from, New: to, Err: syscall.EXDEV}
	}
	point("rename")
	mu.Lock()
	defer mu.Unlock()
	if errno, _ := ask("rename", from, 0); errno != 0 && errno != ShortOK {
		return &LinkError{Op: "rename", Old: from, New: to, Err: errno}
	}
	m := files[from]
	if m == nil {
		return &LinkError{Op: "rename", Old: from, New: to, Err: syscall.ENOENT}
	}
	if !dirs[to[:strings.LastIndex(to, "/")]] {
		return &LinkError{Op: "rename", Old: from, New: to, Err: syscall.ENOENT}
	}
	files[to] = m
	delete(files, from)
	return nil
}

func MkdirAll(path string, perm FileMode) error {
	if !virtual(path + "/") {
		return os.MkdirAll(path, perm)
	}
	point("mkdir")
	mu.Lock()
	defer mu.Unlock()
	if errno, _ := ask("mkdir", path, 0); errno != 0 && errno != ShortOK {
		return &PathError{Op: "mkdir", Path: path, Err: errno}
	}
	p := strings.TrimSuffix(path, "/")
	if files[p] != nil {
		return &PathError{Op: "mkdir", Path: path, Err: syscall.ENOTDIR}
	}
	for p != "" && p != "/vfs" {
		dirs[p] = true
		p = p[:strings.LastIndex(p, "/")]
	}
	return nil
}

var _ fs.FileInfo = memInfo{}

// Package vos is a drop-in for package os in lib/audit (through the overlay):
// paths under /vfs/ live in an in-memory file system with per-descriptor
// offsets and O_APPEND semantics, every operation on them is a scheduling
// point and may be failed by the harness; everything else goes to the real os.
package vos

import (
	"errors"
	"io"
	"os"
	"strings"
	"sync"
	"syscall"

	"verif/mc"
)

const (
	O_RDONLY = os.O_RDONLY
	O_WRONLY = os.O_WRONLY
	O_RDWR   = os.O_RDWR
	O_APPEND = os.O_APPEND
	O_CREATE = os.O_CREATE
	O_EXCL   = os.O_EXCL
	O_SYNC   = os.O_SYNC
	O_TRUNC  = os.O_TRUNC

	ModePerm = os.ModePerm
)

type (
	FileMode  = os.FileMode
	FileInfo  = os.FileInfo
	PathError = os.PathError
)

var (
	ErrNotExist   = os.ErrNotExist
	ErrExist      = os.ErrExist
	ErrPermission = os.ErrPermission

	Stdin  = os.Stdin
	Stdout = os.Stdout
	Stderr = os.Stderr

	Hostname   = os.Hostname
	Getenv     = os.Getenv
	LookupEnv  = os.LookupEnv
	Getpid     = os.Getpid
	IsNotExist = os.IsNotExist
	IsExist    = os.IsExist
	Exit       = os.Exit
	Executable = os.Executable
	TempDir    = os.TempDir
	MkdirAll   = os.MkdirAll
	Remove     = os.Remove
	Rename     = os.Rename
	Stat       = os.Stat
	ReadFile   = os.ReadFile
	Chmod      = os.Chmod
	Environ    = os.Environ
	Args       = os.Args
)

const Prefix = "/vfs/"

type memFile struct {
	data []byte
}

var (
	mu    sync.Mutex
	files = map[string]*memFile{}
	dirs  = map[string]bool{"/vfs": true}
	// Fault decides, per operation on a virtual path, whether it fails
	// ("" = proceed). op is open|write|close|sync.
	Fault func(op, path string, n int) (errno syscall.Errno, short int)
	// OpLog records every virtual operation.
	OpLog []string
)

// Reset clears the virtual file system.
func Reset() {
	mu.Lock()
	files = map[string]*memFile{}
	dirs = map[string]bool{"/vfs": true}
	OpLog = nil
	Fault = nil
	mu.Unlock()
}

func Mkdir(path string) { mu.Lock(); dirs[strings.TrimSuffix(path, "/")] = true; mu.Unlock() }

// ---- what the environment does to the virtual file system behind the program's back ----

// Unlink removes a name; descriptors that are open on the file keep writing to
// the now nameless file, as on a real file system.
func Unlink(path string) { mu.Lock(); delete(files, path); mu.Unlock() }

// Rmdir removes a directory name and every file name below it.
func Rmdir(path string) {
	mu.Lock()
	path = strings.TrimSuffix(path, "/")
	delete(dirs, path)
	for n := range files {
		if strings.HasPrefix(n, path+"/") {
			delete(files, n)
		}
	}
	mu.Unlock()
}

// RenameFile moves a name (log rotation); open descriptors follow the file.
func RenameFile(from, to string) {
	mu.Lock()
	if f := files[from]; f != nil {
		files[to] = f
		delete(files, from)
	}
	mu.Unlock()
}

// Snapshot returns the bytes of a virtual file (nil if absent).
func Snapshot(path string) []byte {
	mu.Lock()
	defer mu.Unlock()
	f := files[path]
	if f == nil {
		return nil
	}
	return append([]byte{}, f.data...)
}

func point(label string) {
	if t := mc.Active().Me(); t != nil {
		t.Point(label)
	}
}

// File is either a virtual descriptor or a real *os.File.
type File struct {
	real   *os.File
	path   string
	f      *memFile
	flag   int
	off    int64
	closed bool
}

func Create(name string) (*File, error) {
	return OpenFile(name, O_RDWR|O_CREATE|O_TRUNC, 0666)
}

func Open(name string) (*File, error) { return OpenFile(name, O_RDONLY, 0) }

func OpenFile(name string, flag int, perm FileMode) (*File, error) {
	if !strings.HasPrefix(name, Prefix) {
		rf, err := os.OpenFile(name, flag, perm)
		if err != nil {
			return nil, err
		}
		return &File{real: rf}, nil
	}
	point("open")
	mu.Lock()
	defer mu.Unlock()
	OpLog = append(OpLog, "open "+name)
	if Fault != nil {
		if errno, _ := Fault("open", name, 0); errno != 0 {
			return nil, &PathError{Op: "open", Path: name, Err: errno}
		}
	}
	dir := name[:strings.LastIndex(name, "/")]
	if !dirs[dir] {
		return nil, &PathError{Op: "open", Path: name, Err: syscall.ENOENT}
	}
	if dirs[name] {
		return nil, &PathError{Op: "open", Path: name, Err: syscall.EISDIR}
	}
	f := files[name]
	if f == nil {
		if flag&O_CREATE == 0 {
			return nil, &PathError{Op: "open", Path: name, Err: syscall.ENOENT}
		}
		f = &memFile{}
		files[name] = f
	} else if flag&O_EXCL != 0 && flag&O_CREATE != 0 {
		return nil, &PathError{Op: "open", Path: name, Err: syscall.EEXIST}
	}
	if flag&O_TRUNC != 0 {
		f.data = nil
	}
	return &File{path: name, f: f, flag: flag}, nil
}

func (f *File) Name() string {
	if f.real != nil {
		return f.real.Name()
	}
	return f.path
}

func (f *File) Write(b []byte) (int, error) {
	if f.real != nil {
		return f.real.Write(b)
	}
	point("write")
	mu.Lock()
	defer mu.Unlock()
	OpLog = append(OpLog, "write "+f.path)
	if f.closed {
		return 0, os.ErrClosed
	}
	if f.flag&(O_WRONLY|O_RDWR) == 0 {
		return 0, &PathError{Op: "write", Path: f.path, Err: syscall.EBADF}
	}
	n := len(b)
	var ferr error
	if Fault != nil {
		if errno, short := Fault("write", f.path, len(b)); errno != 0 {
			n = short
			if n > len(b) {
				n = len(b)
			}
			ferr = &PathError{Op: "write", Path: f.path, Err: errno}
		}
	}
	if f.flag&O_APPEND != 0 {
		// the kernel positions and writes atomically
		f.f.data = append(f.f.data, b[:n]...)
		f.off = int64(len(f.f.data))
	} else {
		// own offset: concurrent writers overwrite each other
		end := f.off + int64(n)
		for int64(len(f.f.data)) < end {
			f.f.data = append(f.f.data, 0)
		}
		copy(f.f.data[f.off:end], b[:n])
		f.off = end
	}
	if ferr != nil {
		return n, ferr
	}
	return n, nil
}

func (f *File) WriteString(s string) (int, error) { return f.Write([]byte(s)) }

func (f *File) Read(b []byte) (int, error) {
	if f.real != nil {
		return f.real.Read(b)
	}
	mu.Lock()
	defer mu.Unlock()
	if f.off >= int64(len(f.f.data)) {
		return 0, io.EOF
	}
	n := copy(b, f.f.data[f.off:])
	f.off += int64(n)
	return n, nil
}

func (f *File) Seek(off int64, whence int) (int64, error) {
	if f.real != nil {
		return f.real.Seek(off, whence)
	}
	mu.Lock()
	defer mu.Unlock()
	switch whence {
	case io.SeekStart:
		f.off = off
	case io.SeekCurrent:
		f.off += off
	case io.SeekEnd:
		f.off = int64(len(f.f.data)) + off
	}
	return f.off, nil
}

func (f *File) Sync() error {
	if f.real != nil {
		return f.real.Sync()
	}
	point("sync")
	return nil
}

func (f *File) Close() error {
	if f.real != nil {
		return f.real.Close()
	}
	point("close")
	mu.Lock()
	defer mu.Unlock()
	OpLog = append(OpLog, "close "+f.path)
	if f.closed {
		return os.ErrClosed
	}
	f.closed = true
	if Fault != nil {
		if errno, _ := Fault("close", f.path, 0); errno != 0 {
			return &PathError{Op: "close", Path: f.path, Err: errno}
		}
	}
	return nil
}

func WriteFile(name string, data []byte, perm FileMode) error {
	f, err := OpenFile(name, O_WRONLY|O_CREATE|O_TRUNC, perm)
	if err != nil {
		return err
	}
	_, err = f.Write(data)
	if cerr := f.Close(); err == nil {
		err = cerr
	}
	return err
}

var _ = errors.New

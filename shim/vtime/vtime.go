// Package vtime is a drop-in for package time in rewritten relic packages
// (through the generated -overlay). The clock is virtual: it moves only when
// the harness moves it, and timers fire only when the harness fires them.
package vtime

import (
	"sync"
	"time"
)

type (
	Duration   = time.Duration
	Time       = time.Time
	Month      = time.Month
	Weekday    = time.Weekday
	Location   = time.Location
	ParseError = time.ParseError
)

const (
	Nanosecond  = time.Nanosecond
	Microsecond = time.Microsecond
	Millisecond = time.Millisecond
	Second      = time.Second
	Minute      = time.Minute
	Hour        = time.Hour

	RFC3339     = time.RFC3339
	RFC3339Nano = time.RFC3339Nano
	RFC1123     = time.RFC1123
	RFC822      = time.RFC822
	ANSIC       = time.ANSIC
	UnixDate    = time.UnixDate
	Kitchen     = time.Kitchen
	DateTime    = time.DateTime
	DateOnly    = time.DateOnly
	TimeOnly    = time.TimeOnly

	January  = time.January
	December = time.December
)

var (
	UTC   = time.UTC
	Local = time.Local

	Date          = time.Date
	Parse         = time.Parse
	ParseDuration = time.ParseDuration
	Unix          = time.Unix
	UnixMilli     = time.UnixMilli
	UnixMicro     = time.UnixMicro
	FixedZone     = time.FixedZone
	LoadLocation  = time.LoadLocation
)

// Epoch is where the virtual clock starts after ResetClock.
var Epoch = time.Date(2030, 1, 1, 0, 0, 0, 0, time.UTC)

type Timer struct {
	C        <-chan Time
	c        chan Time
	fn       func()
	deadline time.Time
	active   bool
	id       int
	periodic bool
	period   Duration
	d        Duration
}

type Event struct {
	Kind  string // "new", "reset", "stop", "sleep", "after"
	Timer *Timer
	D     Duration
}

var (
	mu     sync.Mutex
	now    = Epoch
	timers []*Timer
	nextID int
	// Events, when non-nil, receives one event per timer operation performed
	// by the code under test (buffered by the harness).
	Events chan Event
	// AutoSleep makes Sleep/After advance the clock by themselves.
	AutoSleep = true
	// OnTimer, when set, is called synchronously (on the goroutine of the code
	// under test) for every timer that is created or re-armed, After channels
	// included; the harness decides there what happens to it (t.Elapse(), ending
	// the caller's context, nothing yet). With OnTimer set After does not
	// fire by itself.
	OnTimer func(t *Timer)
)

func emit(e Event) {
	if Events != nil {
		select {
		case Events <- e:
		default:
			panic("vtime: Events channel full")
		}
	}
}

// ---- harness control ----

func ResetClock() {
	mu.Lock()
	now = Epoch
	timers = nil
	mu.Unlock()
}

func SetNow(t time.Time) { mu.Lock(); now = t; mu.Unlock() }

// Advance moves the clock without firing anything.
func Advance(d Duration) { mu.Lock(); now = now.Add(d); mu.Unlock() }

// ActiveTimers lists timers that are armed.
func ActiveTimers() []*Timer {
	mu.Lock()
	defer mu.Unlock()
	var out []*Timer
	for _, t := range timers {
		if t.active {
			out = append(out, t)
		}
	}
	return out
}

func (t *Timer) Deadline() time.Time { mu.Lock(); defer mu.Unlock(); return t.deadline }
func (t *Timer) ID() int             { return t.id }

// Fire delivers the timer now (whatever its deadline).
func (t *Timer) Fire() bool {
	mu.Lock()
	if !t.active {
		mu.Unlock()
		return false
	}
	if t.periodic {
		t.deadline = now.Add(t.period)
	} else {
		t.active = false
	}
	n := now
	fn := t.fn
	mu.Unlock()
	if fn != nil {
		fn()
		return true
	}
	select {
	case t.c <- n:
	default:
	}
	return true
}

// ---- time API ----

func Now() Time { mu.Lock(); defer mu.Unlock(); return now }

func Since(t Time) Duration { return Now().Sub(t) }
func Until(t Time) Duration { return t.Sub(Now()) }

// OnSleep, when set, is called synchronously (on the sleeping goroutine) before a Sleep elapses.
var OnSleep func(d Duration)

func Sleep(d Duration) {
	emit(Event{Kind: "sleep", D: d})
	if f := OnSleep; f != nil {
		f(d)
	}
	if AutoSleep && d > 0 {
		Advance(d)
	}
}

func newTimer(d Duration, fn func()) *Timer {
	mu.Lock()
	c := make(chan Time, 1)
	nextID++
	t := &Timer{C: c, c: c, fn: fn, deadline: now.Add(d), active: true, id: nextID, d: d}
	timers = append(timers, t)
	mu.Unlock()
	emit(Event{Kind: "new", Timer: t, D: d})
	if OnTimer != nil {
		OnTimer(t)
	}
	return t
}

// Elapse moves the virtual clock to the timer's deadline (if it is still
// ahead) and fires it.
func (t *Timer) Elapse() bool {
	mu.Lock()
	if now.Before(t.deadline) {
		now = t.deadline
	}
	mu.Unlock()
	return t.Fire()
}

// D reports the duration the timer was last armed with.
func (t *Timer) D() Duration { mu.Lock(); defer mu.Unlock(); return t.d }

func NewTimer(d Duration) *Timer { return newTimer(d, nil) }

func AfterFunc(d Duration, f func()) *Timer { return newTimer(d, f) }

// After returns a channel that the harness must fire; with AutoSleep the
// clock is advanced and the channel is ready at once.
func After(d Duration) <-chan Time {
	t := newTimer(d, nil)
	if AutoSleep && OnTimer == nil {
		if d > 0 {
			Advance(d)
		}
		t.Fire()
	}
	return t.C
}

func (t *Timer) Stop() bool {
	mu.Lock()
	was := t.active
	t.active = false
	mu.Unlock()
	emit(Event{Kind: "stop", Timer: t})
	return was
}

func (t *Timer) Reset(d Duration) bool {
	mu.Lock()
	was := t.active
	t.active = true
	t.deadline = now.Add(d)
	t.d = d
	mu.Unlock()
	emit(Event{Kind: "reset", Timer: t, D: d})
	if OnTimer != nil {
		OnTimer(t)
	}
	return was
}

// ---- tickers ----

// Ticker is a timer that stays armed after it is fired; the harness delivers
// each tick with Fire (a tick is dropped when the previous one was not
// consumed, like the real ticker's one-slot channel).
type Ticker struct {
	C <-chan Time
	t *Timer
}

// Periodic reports whether the timer belongs to a Ticker.
func (t *Timer) Periodic() bool { return t.periodic }

func NewTicker(d Duration) *Ticker {
	if d <= 0 {
		panic("non-positive interval for NewTicker")
	}
	t := newPeriodic(d)
	return &Ticker{C: t.C, t: t}
}

func newPeriodic(d Duration) *Timer {
	mu.Lock()
	c := make(chan Time, 1)
	nextID++
	t := &Timer{C: c, c: c, deadline: now.Add(d), active: true, id: nextID, periodic: true, period: d}
	timers = append(timers, t)
	mu.Unlock()
	emit(Event{Kind: "new", Timer: t, D: d})
	return t
}

func Tick(d Duration) <-chan Time {
	if d <= 0 {
		return nil
	}
	return NewTicker(d).C
}

func (k *Ticker) Stop() { k.t.Stop() }

func (k *Ticker) Reset(d Duration) {
	if d <= 0 {
		panic("non-positive interval for Ticker.Reset")
	}
	mu.Lock()
	k.t.period = d
	mu.Unlock()
	k.t.Reset(d)
}

// Timer returns the underlying harness handle of a ticker.
func (k *Ticker) Timer() *Timer { return k.t }

// Package faketoken registers token type "verif": a scripted token whose
// every operation is recorded and whose answers the harness decides. It uses
// only relic's public registry (token.Openers), so no hook in /repo is needed.
package faketoken

import (
	"context"
	"crypto"
	"crypto/rand"
	"crypto/x509"
	"errors"
	"io"
	"os"
	"sync"

	"github.com/sassoftware/relic/v8/config"
	"github.com/sassoftware/relic/v8/lib/certloader"
	"github.com/sassoftware/relic/v8/lib/passprompt"
	"github.com/sassoftware/relic/v8/token"
)

const Type = "verif"

// Call is one recorded operation.
type Call struct {
	Token, Op, Key string
}

// Script is the harness's control block; replace the funcs as needed.
type Script struct {
	Mu    sync.Mutex
	Calls []Call
	// Ping decides the answer of Ping for a token.
	Ping func(ctx context.Context, tokenName string) error
	// GetKey may override key lookup (return nil,nil to fall through).
	GetKey func(ctx context.Context, tokenName, keyName string) (token.Key, error)
	// Hook is called before every operation (scheduling point).
	Hook func(c Call)
	// SignHook may wrap/replace signing.
	Sign func(k *Key, digest []byte, opts crypto.SignerOpts) ([]byte, error)
	// SignCtx, when set, answers SignContext and sees the context the caller passed.
	SignCtx func(ctx context.Context, k *Key, digest []byte, opts crypto.SignerOpts) ([]byte, error)
	// KeyID returned by GetID for a key name
	KeyID map[string][]byte
}

var S = &Script{}

func Reset() {
	S = &Script{}
}

func (s *Script) record(c Call) {
	s.Mu.Lock()
	s.Calls = append(s.Calls, c)
	h := s.Hook
	s.Mu.Unlock()
	if h != nil {
		h(c)
	}
}

func (s *Script) Count(op string) int {
	s.Mu.Lock()
	defer s.Mu.Unlock()
	n := 0
	for _, c := range s.Calls {
		if op == "" || c.Op == op {
			n++
		}
	}
	return n
}

func init() {
	token.Openers[Type] = Open
}

type Token struct {
	conf  *config.Config
	tconf *config.TokenConfig
	name  string
}

func Open(conf *config.Config, tokenName string, prompt passprompt.PasswordGetter) (token.Token, error) {
	tconf, err := conf.GetToken(tokenName)
	if err != nil {
		return nil, err
	}
	S.record(Call{tokenName, "open", ""})
	return &Token{conf, tconf, tokenName}, nil
}

func (t *Token) Ping(ctx context.Context) error {
	S.record(Call{t.name, "ping", ""})
	if S.Ping != nil {
		return S.Ping(ctx, t.name)
	}
	return nil
}

func (t *Token) Close() error {
	S.record(Call{t.name, "close", ""})
	return nil
}

func (t *Token) Config() *config.TokenConfig { return t.tconf }

func (t *Token) ListKeys(opts token.ListOptions) error {
	return token.NotImplementedError{Op: "list-keys", Type: Type}
}

var keyCache sync.Map // keyfile path -> crypto.Signer

func loadSigner(path string) (crypto.Signer, error) {
	if v, ok := keyCache.Load(path); ok {
		return v.(crypto.Signer), nil
	}
	blob, err := os.ReadFile(path)
	if err != nil {
		return nil, err
	}
	pk, err := certloader.ParseAnyPrivateKey(blob, nil)
	if err != nil {
		return nil, err
	}
	s, ok := pk.(crypto.Signer)
	if !ok {
		return nil, errors.New("not a signer")
	}
	keyCache.Store(path, s)
	return s, nil
}

func (t *Token) GetKey(ctx context.Context, keyName string) (token.Key, error) {
	S.record(Call{t.name, "getkey", keyName})
	if S.GetKey != nil {
		if k, err := S.GetKey(ctx, t.name, keyName); k != nil || err != nil {
			return k, err
		}
	}
	keyConf, err := t.conf.GetKey(keyName)
	if err != nil {
		return nil, err
	}
	signer, err := loadSigner(keyConf.KeyFile)
	if err != nil {
		return nil, err
	}
	return &Key{Tok: t.name, Name: keyName, Conf: keyConf, Signer: signer, ID: S.KeyID[keyName]}, nil
}

func (t *Token) Import(keyName string, privKey crypto.PrivateKey) (token.Key, error) {
	return nil, token.NotImplementedError{Op: "import-key", Type: Type}
}
func (t *Token) ImportCertificate(cert *x509.Certificate, labelBase string) error {
	return token.NotImplementedError{Op: "import-certificate", Type: Type}
}
func (t *Token) Generate(keyName string, keyType token.KeyType, bits uint) (token.Key, error) {
	return nil, token.NotImplementedError{Op: "generate-key", Type: Type}
}

type Key struct {
	Tok, Name string
	Conf      *config.KeyConfig
	Signer    crypto.Signer
	Cert      []byte
	ID        []byte
}

func (k *Key) Public() crypto.PublicKey { return k.Signer.Public() }

func (k *Key) Sign(r io.Reader, digest []byte, opts crypto.SignerOpts) ([]byte, error) {
	S.record(Call{k.Tok, "sign", k.Name})
	if S.Sign != nil {
		return S.Sign(k, digest, opts)
	}
	return k.Signer.Sign(rand.Reader, digest, opts)
}

func (k *Key) SignContext(ctx context.Context, digest []byte, opts crypto.SignerOpts) ([]byte, error) {
	if S.SignCtx != nil {
		S.record(Call{k.Tok, "sign", k.Name})
		return S.SignCtx(ctx, k, digest, opts)
	}
	return k.Sign(rand.Reader, digest, opts)
}

func (k *Key) Config() *config.KeyConfig { return k.Conf }
func (k *Key) Certificate() []byte       { return k.Cert }
func (k *Key) GetID() []byte             { return k.ID }
func (k *Key) ImportCertificate(cert *x509.Certificate) error {
	return token.NotImplementedError{Op: "import-certificate", Type: Type}
}

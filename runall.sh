#!/bin/bash
# runs every registered quick (or thorough) check and prints one summary line each
tier=${1:-quick}
cd /verif
for id in $(python3 -c "import json;print(' '.join(c['property_id'] for c in json.load(open('MANIFEST.json'))['checks']))") ${EXTRA:-}; do
  s=$(date +%s)
  out=$(./check $id $tier 2>&1); rc=$?
  e=$(( $(date +%s) - s ))
  echo "$id rc=$rc ${e}s :: $(echo "$out" | grep -E "^$id $tier:" | tail -1 | cut -c1-160)"
  if [ $rc -ne 0 ]; then echo "$out" | grep -E "VIOLATION|HARNESS|BUILD" | sed 's/replay=[^ ]* //' | cut -c1-300 | head -8; fi
done

// Package tsa is a harness-owned timestamp authority: it builds RFC 3161
// responses and legacy Microsoft counter-signatures from scratch (DER
// primitives of verif/gen/dergen, Go crypto) so that every field can be made
// right or wrong on purpose. It shares no code with relic.
package tsa

import (
	"crypto"
	"crypto/rand"
	"crypto/rsa"
	"crypto/sha1"
	"crypto/sha256"
	"crypto/x509"
	"crypto/x509/pkix"
	"encoding/asn1"
	"encoding/base64"
	"encoding/pem"
	"errors"
	"math/big"
	"os"
	"time"

	d "verif/gen/dergen"
)

var (
	oidSignedData  = d.OID(1, 2, 840, 113549, 1, 7, 2)
	oidData        = d.OID(1, 2, 840, 113549, 1, 7, 1)
	oidTSTInfo     = d.OID(1, 2, 840, 113549, 1, 9, 16, 1, 4)
	oidContentType = d.OID(1, 2, 840, 113549, 1, 9, 3)
	oidMessageDig  = d.OID(1, 2, 840, 113549, 1, 9, 4)
	oidSigningTime = d.OID(1, 2, 840, 113549, 1, 9, 5)
	oidSigningCert = d.OID(1, 2, 840, 113549, 1, 9, 16, 2, 12)
	oidSHA256      = d.OID(2, 16, 840, 1, 101, 3, 4, 2, 1)
	oidSHA1        = d.OID(1, 3, 14, 3, 2, 26)
	oidRSA         = d.OID(1, 2, 840, 113549, 1, 1, 1)
	oidPolicy      = d.OID(1, 3, 6, 1, 4, 1, 99999, 1)
)

type Authority struct {
	Key   crypto.Signer
	Cert  *x509.Certificate
	Chain []*x509.Certificate // extra certificates to embed (intermediates)
}

func loadCerts(path string) []*x509.Certificate {
	blob, err := os.ReadFile(path)
	if err != nil {
		panic(err)
	}
	var out []*x509.Certificate
	for {
		var b *pem.Block
		b, blob = pem.Decode(blob)
		if b == nil {
			break
		}
		c, err := x509.ParseCertificate(b.Bytes)
		if err != nil {
			panic(err)
		}
		out = append(out, c)
	}
	return out
}

func LoadKey(path string) crypto.Signer {
	blob, err := os.ReadFile(path)
	if err != nil {
		panic(err)
	}
	b, _ := pem.Decode(blob)
	k, err := x509.ParsePKCS8PrivateKey(b.Bytes)
	if err != nil {
		panic(err)
	}
	return k.(crypto.Signer)
}

// Fixture returns the committed fixture authority (tsa.key / tsa.chain.crt).
func Fixture() *Authority {
	cs := loadCerts("/verif/fixtures/keys/tsa.chain.crt")
	return &Authority{Key: LoadKey("/verif/fixtures/keys/tsa.key"), Cert: cs[0], Chain: cs[1:2]}
}

// Query is a parsed TimeStampReq.
type Query struct {
	HashOID []byte // DER of the OID
	HashAlg []byte // DER of the AlgorithmIdentifier as sent
	Imprint []byte
	Nonce   *big.Int
	CertReq bool
}

func ParseQuery(b []byte) (*Query, error) {
	n, err := d.Parse(b)
	if err != nil {
		return nil, err
	}
	if len(n.Kids) < 2 || len(n.Kids[1].Kids) != 2 {
		return nil, errors.New("short TimeStampReq")
	}
	mi := n.Kids[1]
	q := &Query{HashAlg: mi.Kids[0].Range().Of(b), Imprint: mi.Kids[1].Content().Of(b)}
	if len(mi.Kids[0].Kids) > 0 {
		q.HashOID = mi.Kids[0].Kids[0].Range().Of(b)
	}
	for _, k := range n.Kids[2:] {
		switch {
		case k.Is(0, 2):
			q.Nonce = new(big.Int).SetBytes(k.Content().Of(b))
		case k.Is(0, 1):
			q.CertReq = k.Content().Of(b)[0] != 0
		}
	}
	return q, nil
}

// TokenOpts selects what the token says.
type TokenOpts struct {
	HashAlg    []byte // AlgorithmIdentifier DER for the imprint
	Imprint    []byte
	Nonce      *big.Int // nil = absent
	GenTime    time.Time
	NoCerts    bool
	CorruptSig bool
	SignWith   crypto.Signer // default: the authority's key
	Serial     int64
	// Detached: the SignedData carries no copy of what it signs (the
	// encapsulated content is absent; PKCS#7 section 9.1 / CMS 5.2 allow that,
	// the signed messageDigest attribute is then the only link to the content).
	Detached bool
	// DigestOver, if not nil: the signed messageDigest attribute is the digest
	// of these octets instead of the digest of the content.
	DigestOver []byte
}

func (a *Authority) signerInfo(econtentType []byte, content []byte, t time.Time, o TokenOpts) []byte {
	h := sha256.Sum256(content)
	if o.DigestOver != nil {
		h = sha256.Sum256(o.DigestOver)
	}
	ch := sha1.Sum(a.Cert.Raw)
	attrs := d.SortDER([][]byte{
		d.Seq(oidContentType, d.SetAsGiven(econtentType)),
		d.Seq(oidSigningTime, d.SetAsGiven(d.UTCTime(t))),
		d.Seq(oidMessageDig, d.SetAsGiven(d.Octets(h[:]))),
		d.Seq(oidSigningCert, d.SetAsGiven(d.Seq(d.Seq(d.Seq(d.Octets(ch[:])))))),
	})
	tbs := d.SetAsGiven(attrs...)
	key := a.Key
	if o.SignWith != nil {
		key = o.SignWith
	}
	dig := sha256.Sum256(tbs)
	sig, err := key.Sign(rand.Reader, dig[:], crypto.SHA256)
	if err != nil {
		panic(err)
	}
	if o.CorruptSig {
		sig[len(sig)/2] ^= 0x55
	}
	sid := d.Seq(a.Cert.RawIssuer, d.BigInt(a.Cert.SerialNumber))
	return d.Seq(d.Int(1), sid, d.Seq(oidSHA256, d.Null()), d.Retag(0xa0, tbs), d.Seq(oidRSA, d.Null()), d.Octets(sig))
}

func (a *Authority) signedData(econtentType, content []byte, t time.Time, o TokenOpts) []byte {
	encap := d.Seq(econtentType, d.Ctx(0, true, d.Octets(content)))
	if o.Detached {
		encap = d.Seq(econtentType)
	}
	parts := [][]byte{d.Int(3), d.SetAsGiven(d.Seq(oidSHA256, d.Null())), encap}
	if !o.NoCerts {
		certs := [][]byte{a.Cert.Raw}
		for _, c := range a.Chain {
			certs = append(certs, c.Raw)
		}
		parts = append(parts, d.Ctx(0, true, certs...))
	}
	parts = append(parts, d.SetAsGiven(a.signerInfo(econtentType, content, t, o)))
	return d.Seq(oidSignedData, d.Ctx(0, true, d.Seq(parts...)))
}

// Token builds an RFC 3161 TimeStampToken (ContentInfo DER).
func (a *Authority) Token(o TokenOpts) []byte {
	serial := o.Serial
	if serial == 0 {
		serial = 1
	}
	fields := [][]byte{d.Int(1), oidPolicy, d.Seq(o.HashAlg, d.Octets(o.Imprint)), d.Int(serial), d.GenTime(o.GenTime, "")}
	if o.Nonce != nil {
		fields = append(fields, d.BigInt(o.Nonce))
	}
	return a.signedData(oidTSTInfo, d.Seq(fields...), o.GenTime, o)
}

// Resp wraps a token (may be nil) into a TimeStampResp with the given status.
func Resp(status int, token []byte) []byte {
	if token == nil {
		return d.Seq(d.Seq(d.Int(int64(status))))
	}
	return d.Seq(d.Seq(d.Int(int64(status))), token)
}

// LegacyQuery extracts the signature value from a Microsoft timestamp request.
func LegacyQuery(b []byte) ([]byte, error) {
	n, err := d.Parse(b)
	if err != nil {
		return nil, err
	}
	// SEQ { OID, SEQ { OID, [0] { OCTET STRING } } }
	if len(n.Kids) < 2 {
		return nil, errors.New("short legacy request")
	}
	c := n.Kids[len(n.Kids)-1]
	if len(c.Kids) < 2 || len(c.Kids[1].Kids) < 1 {
		return nil, errors.New("bad legacy request")
	}
	return c.Kids[1].Kids[0].Content().Of(b), nil
}

// LegacyResp builds the base64 PKCS#7 a Microsoft-style authority returns: a
// SignedData over the signature value itself, signing time in the attributes.
func (a *Authority) LegacyResp(encryptedDigest []byte, t time.Time, o TokenOpts) []byte {
	der := a.signedData(oidData, encryptedDigest, t, o)
	return []byte(base64.StdEncoding.EncodeToString(der))
}

// LegacyDER is LegacyResp before the base64 transport encoding: the PKCS#7 as
// it is stored in a cache or embedded in a ClickOnce manifest.
func (a *Authority) LegacyDER(encryptedDigest []byte, t time.Time, o TokenOpts) []byte {
	return a.signedData(oidData, encryptedDigest, t, o)
}

// CounterSigner builds the value of a PKCS#9 countersignature attribute
// (1.2.840.113549.1.9.6): a bare SignerInfo over the given signature value,
// signing time in its attributes; the certificates travel in the parent.
func (a *Authority) CounterSigner(encryptedDigest []byte, t time.Time, o TokenOpts) []byte {
	return a.signerInfo(oidData, encryptedDigest, t, o)
}

// Extended key usage purposes (RFC 5280 4.2.1.12, RFC 3161 2.3).
var (
	EKUTimeStamping = asn1.ObjectIdentifier{1, 3, 6, 1, 5, 5, 7, 3, 8}
	EKUCodeSigning  = asn1.ObjectIdentifier{1, 3, 6, 1, 5, 5, 7, 3, 3}
	EKUClientAuth   = asn1.ObjectIdentifier{1, 3, 6, 1, 5, 5, 7, 3, 2}
	EKUAny          = asn1.ObjectIdentifier{2, 5, 29, 37, 0}
	// EKUPrivate is a purpose from a private arc that no library has a name for.
	EKUPrivate = asn1.ObjectIdentifier{1, 3, 6, 1, 4, 1, 99999, 3, 1}
)

// CertSpec describes a certificate to issue. EKU nil = no extended key usage
// extension at all; otherwise the extension lists exactly these purposes, with
// the criticality given.
type CertSpec struct {
	CN          string
	CA          bool
	EKU         []asn1.ObjectIdentifier
	EKUCritical bool
	NotBefore   time.Time
	NotAfter    time.Time
}

// Issue signs a certificate for pub as described; parent nil = self-signed
// with parentKey.
func Issue(spec CertSpec, pub crypto.PublicKey, parent *x509.Certificate, parentKey crypto.Signer) *x509.Certificate {
	serial, err := rand.Int(rand.Reader, big.NewInt(1<<62))
	if err != nil {
		panic(err)
	}
	t := &x509.Certificate{
		SerialNumber:          serial,
		Subject:               pkix.Name{Country: []string{"US"}, Organization: []string{"verif fixtures"}, CommonName: spec.CN},
		NotBefore:             spec.NotBefore,
		NotAfter:              spec.NotAfter,
		BasicConstraintsValid: true,
		IsCA:                  spec.CA,
		KeyUsage:              x509.KeyUsageDigitalSignature,
	}
	if spec.CA {
		t.KeyUsage = x509.KeyUsageCertSign | x509.KeyUsageCRLSign
	}
	if spec.EKU != nil {
		var oids [][]byte
		for _, o := range spec.EKU {
			arcs := make([]int, len(o))
			copy(arcs, o)
			oids = append(oids, d.OID(arcs...))
		}
		t.ExtraExtensions = []pkix.Extension{{Id: asn1.ObjectIdentifier{2, 5, 29, 37}, Critical: spec.EKUCritical, Value: d.Seq(oids...)}}
	}
	if parent == nil {
		parent = t
	}
	der, err := x509.CreateCertificate(rand.Reader, t, parent, pub, parentKey)
	if err != nil {
		panic(err)
	}
	c, err := x509.ParseCertificate(der)
	if err != nil {
		panic(err)
	}
	return c
}

// SHA256Alg / SHA1Alg are AlgorithmIdentifier encodings.
func SHA256Alg() []byte { return d.Seq(oidSHA256, d.Null()) }
func SHA1Alg() []byte   { return d.Seq(oidSHA1, d.Null()) }

// NewRSAKey makes a throw-away key.
func NewRSAKey() *rsa.PrivateKey {
	k, err := rsa.GenerateKey(rand.Reader, 2048)
	if err != nil {
		panic(err)
	}
	return k
}

// SHA3_256Alg is another 32-byte digest algorithm (for "right octets, wrong algorithm").
func SHA3_256Alg() []byte { return d.Seq(d.OID(2, 16, 840, 1, 101, 3, 4, 2, 8), d.Null()) }
